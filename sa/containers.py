"""Value-semantics containers for the lifted object model.

Python dicts and sets compare their keys with __hash__/__eq__.  In the lifted world, instances of
repository classes are `Obj`s and their __eq__ lives in the analysed source, so the containers below
find an existing equal key by calling the *lifted* __eq__ (through `interp.obj_eq`).  `VSet` also makes
the iteration order of a set an explicit parameter of the analysis ("fifo" / "lifo" / "keyed:<salt>"): real sets of
objects hashed by id / by string hash iterate in an order that depends on the process, so a result
that changes with this parameter depends on incidental process state.
"""

from __future__ import annotations


class _Keys:
    def _init_keys(self, interp):
        self._ip = interp

    def _same(self, a, b):
        if a is b:
            return True
        ip = self._ip
        ka, kb = ip.obj_class(a), ip.obj_class(b)
        if ka is None and kb is None:
            try:
                return type(a) is type(b) and a == b if not isinstance(a, (int, float)) else a == b
            except Exception:
                return False
        if ka is None or kb is None:
            if isinstance(a, tuple) and isinstance(b, tuple):
                return len(a) == len(b) and all(self._same(x, y) for x, y in zip(a, b))
            # mixed: let the object's __eq__ decide
        if isinstance(a, tuple) and isinstance(b, tuple):
            return len(a) == len(b) and all(self._same(x, y) for x, y in zip(a, b))
        return bool(ip.obj_eq(a, b))


class VDict(dict, _Keys):
    """dict whose key lookup uses the lifted __eq__ of repository objects (insertion ordered)."""

    __lift_host__ = True

    def __init__(self, interp, items=()):
        dict.__init__(self)
        self._init_keys(interp)
        self._keys = []
        self._vals = []
        if isinstance(items, dict):
            items = list(items.items())
        for k, v in items:
            self[k] = v

    def _find(self, key):
        plain = self._ip.obj_class(key) is None and not isinstance(key, tuple)
        for i, k in enumerate(self._keys):
            if k is key:
                return i
            if plain:
                if self._ip.obj_class(k) is None and not isinstance(k, tuple):
                    try:
                        if k == key and (type(k) is type(key) or isinstance(k, (int, float)) and isinstance(key, (int, float))):
                            return i
                    except Exception:
                        pass
                continue
            if self._same(k, key):
                return i
        return -1

    def __missing__(self, key):
        raise KeyError(key)

    def __getitem__(self, key):
        i = self._find(key)
        if i < 0:
            return self.__missing__(key)
        return self._vals[i]

    def __setitem__(self, key, value):
        i = self._find(key)
        if i < 0:
            self._keys.append(key)
            self._vals.append(value)
        else:
            self._vals[i] = value

    def __delitem__(self, key):
        i = self._find(key)
        if i < 0:
            raise KeyError(key)
        del self._keys[i]
        del self._vals[i]

    def __contains__(self, key):
        return self._find(key) >= 0

    def __iter__(self):
        return iter(list(self._keys))

    def __len__(self):
        return len(self._keys)

    def __bool__(self):
        return bool(self._keys)

    def __eq__(self, other):
        if not isinstance(other, dict):
            return NotImplemented
        if len(self) != len(other):
            return False
        for k, v in self.items():
            if k not in other:
                return False
            w = other[k]
            if not (v is w or self._same(v, w)):
                return False
        return True

    __hash__ = None

    def __repr__(self):
        return "{" + ", ".join(f"{k!r}: {v!r}" for k, v in self.items()) + "}"

    def keys(self):
        return list(self._keys)

    def values(self):
        return list(self._vals)

    def items(self):
        return list(zip(self._keys, self._vals))

    def get(self, key, default=None):
        i = self._find(key)
        return default if i < 0 else self._vals[i]

    def setdefault(self, key, default=None):
        i = self._find(key)
        if i < 0:
            self[key] = default
            return default
        return self._vals[i]

    def pop(self, key, *default):
        i = self._find(key)
        if i < 0:
            if default:
                return default[0]
            raise KeyError(key)
        v = self._vals[i]
        del self._keys[i]
        del self._vals[i]
        return v

    def update(self, other=(), **kw):
        if isinstance(other, dict):
            other = list(other.items())
        for k, v in other:
            self[k] = v
        for k, v in kw.items():
            self[k] = v

    def copy(self):
        return VDict(self._ip, self.items())

    def clear(self):
        self._keys.clear()
        self._vals.clear()


class VDefaultDict(VDict):
    def __init__(self, interp, factory=None, items=()):
        self._factory = factory
        VDict.__init__(self, interp, items)

    def __missing__(self, key):
        if self._factory is None:
            raise KeyError(key)
        v = self._factory()
        self[key] = v
        return v

    def get(self, key, default=None):
        i = self._find(key)
        return default if i < 0 else self._vals[i]


class VSet(set, _Keys):
    """set with lifted equality and an explicit iteration order (`order`: 'fifo' | 'lifo')."""

    __lift_host__ = True

    def __init__(self, interp, items=(), order="fifo", frozen=False):
        set.__init__(self)
        self._init_keys(interp)
        self._items = []
        self._order = order
        self._frozen = frozen
        for x in items:
            self.add(x)

    def _has(self, x):
        return any(self._same(y, x) for y in self._items)

    def add(self, x):
        if not self._ip.is_hashable_obj(x):
            from .lift import LiftRaise

            raise LiftRaise(f"TypeError: unhashable type: '{self._ip.obj_class(x).name}'")
        if not self._has(x):
            self._items.append(x)

    def update(self, *others):
        for o in others:
            for x in list(o):
                self.add(x)

    def discard(self, x):
        self._items = [y for y in self._items if not self._same(y, x)]

    def remove(self, x):
        if not self._has(x):
            raise KeyError(x)
        self.discard(x)

    def pop(self):
        it = list(self)
        if not it:
            raise KeyError("pop from an empty set")
        self.discard(it[0])
        return it[0]

    def __contains__(self, x):
        return self._has(x)

    def __iter__(self):
        if self._order == "fifo":
            return iter(list(self._items))
        if self._order == "lifo":
            return iter(list(reversed(self._items)))
        # 'keyed:<salt>': like a hash table, the order is a function of the elements (not of the
        # insertion history): sort by a salted digest of a stable element name
        import hashlib

        salt = self._order.split(":", 1)[1]

        def key(x):
            from .lift import Obj

            name = f"obj{x.attrs.get('_serial', x.kind)}" if isinstance(x, Obj) else repr(x)
            return hashlib.sha256(f"{salt}:{name}".encode()).digest()

        return iter(sorted(self._items, key=key))

    def __len__(self):
        return len(self._items)

    def __bool__(self):
        return bool(self._items)

    def _new(self, items):
        return VSet(self._ip, items, self._order, self._frozen)

    def copy(self):
        return self._new(self._items)

    def __or__(self, other):
        return self._new(list(self._items) + list(other))

    __ror__ = __or__
    union = lambda self, *others: self._new(list(self._items) + [x for o in others for x in o])  # noqa: E731

    def __and__(self, other):
        other = list(other)
        return self._new([x for x in self._items if any(self._same(x, y) for y in other)])

    intersection = __and__

    def __sub__(self, other):
        other = list(other)
        return self._new([x for x in self._items if not any(self._same(x, y) for y in other)])

    difference = __sub__

    def __ior__(self, other):
        self.update(other)
        return self

    def __isub__(self, other):
        for x in list(other):
            self.discard(x)
        return self

    def __iand__(self, other):
        other = list(other)
        self._items = [x for x in self._items if any(self._same(x, y) for y in other)]
        return self

    def __eq__(self, other):
        if not isinstance(other, (set, frozenset)):
            return NotImplemented
        other = list(other)
        return len(self._items) == len(other) and all(any(self._same(x, y) for y in other) for x in self._items)

    def __ne__(self, other):
        r = self.__eq__(other)
        return r if r is NotImplemented else not r

    def issubset(self, other):
        other = list(other)
        return all(any(self._same(x, y) for y in other) for x in self._items)

    def __le__(self, other):
        return self.issubset(other)

    __hash__ = None

    def __repr__(self):
        return "{" + ", ".join(repr(x) for x in self) + "}"
