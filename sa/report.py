"""Findings, known-findings matching, evidence files, exit codes."""

from __future__ import annotations

import json
import os
import time
from dataclasses import asdict, dataclass, field

from .model import AnalysisError, FuncInfo, norm

VERIF = os.path.dirname(os.path.dirname(os.path.abspath(__file__)))


def outroot():
    """evidence / replay files belong to /repo itself; runs against a scratch copy (--repo) write elsewhere"""
    repo = os.path.realpath(os.environ.get("VERIF_REPO", "/repo"))
    if repo == "/repo" and not os.environ.get("VERIF_OUT"):
        return VERIF
    d = os.environ.get("VERIF_OUT") or os.path.join("/tmp", "verif_scratch_out", repo.strip("/").replace("/", "_"))
    os.makedirs(d, exist_ok=True)
    return d


@dataclass
class Finding:
    rule: str
    file: str
    line: int
    scope: str  # enclosing function / class qualname or table name
    construct: str  # normalised statement / instance text (position independent)
    why: str
    witness: str = ""

    def key(self):
        return (self.rule, self.file, self.scope, self.construct)


MAIN_REPORTS: dict = {}


@dataclass
class Report:
    property_id: str
    level: str = "other"
    findings: list = field(default_factory=list)
    obligations: list = field(default_factory=list)  # (rule, where, what)
    infos: list = field(default_factory=list)
    counts: dict = field(default_factory=dict)
    assumptions: list = field(default_factory=list)
    explanation: str = ""
    extra: dict = field(default_factory=dict)
    exhaustive: bool | None = None

    def __post_init__(self):
        MAIN_REPORTS.setdefault(self.property_id, self)  # the driver reports what was found even if a later clause breaks

    # -------------------------------------------------------------- record
    def ok(self, rule: str, where, what: str = ""):
        self.obligations.append((rule, _where(where), what))

    def violation(self, rule, where, construct, why, witness="", scope=None, line=None, file=None):
        f, l, s = _loc(where)
        self.findings.append(
            Finding(rule, file or f, line if line is not None else l, scope or s, _txt(construct), why, witness)
        )
        self.obligations.append((rule, _where(where), "FAILED: " + why))

    def info(self, rule, where, what):
        self.infos.append((rule, _where(where), what))

    def count(self, key, n=1):
        self.counts[key] = self.counts.get(key, 0) + n

    def require_min(self, rule: str, minimum: int):
        n = sum(1 for o in self.obligations if o[0] == rule or o[0].startswith(rule + "/"))
        if n < minimum:
            raise AnalysisError(
                f"rule {rule} matched {n} instances, fewer than the {minimum} confirmed by reading: "
                "the rule has gone (partly) vacuous"
            )
        return n

    def rules(self):
        seen = []
        for o in self.obligations:
            r = o[0].split("/")[0]
            if r not in seen:
                seen.append(r)
        return seen


def _txt(c):
    if isinstance(c, str):
        return " ".join(c.split())
    return " ".join(norm(c).split())


def _loc(where):
    if isinstance(where, FuncInfo):
        return where.file, where.line, where.qualname
    if isinstance(where, tuple):
        # (FuncInfo|file, node|line[, scope])
        a, b = where[0], where[1]
        line = getattr(b, "lineno", b)
        if isinstance(a, FuncInfo):
            return a.file, line, a.qualname
        if hasattr(a, "relpath"):
            return a.relpath, line, (where[2] if len(where) > 2 else "<module>")
        if hasattr(a, "file"):
            return a.file, line, getattr(a, "qualname", getattr(a, "name", "?"))
        return str(a), line, (where[2] if len(where) > 2 else "")
    if hasattr(where, "file"):
        return where.file, getattr(where, "line", 0), getattr(where, "name", "?")
    return str(where), 0, ""


def _where(where):
    f, l, s = _loc(where)
    return f"{f}:{l} {s}".strip()


# ----------------------------------------------------------------- findings


def load_known():
    p = os.path.join(VERIF, "known_findings.json")
    if not os.path.exists(p):
        return []
    return json.load(open(p))


def match_known(prop: str, f: Finding, known):
    for k in known:
        if k.get("status") != "open":
            continue
        if k["property"] != prop or k["rule"] != f.rule:
            continue
        if k["file"] != f.file or k["scope"] != f.scope:
            continue
        if k.get("construct") is not None and _txt(k["construct"]) != f.construct:
            continue
        return k
    return None


def finish(rep: Report, tier: str, seed: int, t0: float, replay_only=None) -> int:
    """Print verdict lines, write evidence + replay files, return exit code."""
    known = load_known()
    new = []
    knownhit = []
    for f in rep.findings:
        k = match_known(rep.property_id, f, known)
        if k is not None:
            knownhit.append((f, k))
        else:
            new.append(f)
    outdir = os.path.join(outroot(), "out", "replay")
    os.makedirs(outdir, exist_ok=True)
    seen = set()
    for f, k in knownhit:
        if id(k) in seen:
            continue
        seen.add(id(k))
        print(f"KNOWN-FINDING: property={rep.property_id} {k['id']} {f.rule} {f.file} {f.scope}: {k['what_fails']}")
    for i, f in enumerate(new):
        path = os.path.join(outdir, f"{rep.property_id}-{i}.json")
        json.dump({"property": rep.property_id, **asdict(f)}, open(path, "w"), indent=1)
        print(f"{f.file}:{f.line}: [{f.rule}] {f.scope}: {f.why}")
        print(f"    construct: {f.construct[:300]}")
        if f.witness:
            print(f"    witness: {str(f.witness)[:400]}")
        print(f"VIOLATION property={rep.property_id} replay={path}")
    write_evidence(rep, tier, seed, time.time() - t0, len(new), len(knownhit))
    return 1 if new else 0


def write_evidence(rep: Report, tier, seed, wall, nviol, nknown):
    per_rule = {}
    for r, w, what in rep.obligations:
        d = per_rule.setdefault(r.split("/")[0], {"instances": 0, "failed": 0})
        d["instances"] += 1
        if what.startswith("FAILED"):
            d["failed"] += 1
    distinct = len({(r, w, what) for r, w, what in rep.obligations})
    samples = []
    seen_rules = set()
    for r, w, what in rep.obligations:
        rr = r.split("/")[0]
        if rr in seen_rules and len(samples) > 40:
            continue
        if sum(1 for s in samples if s["rule"].split("/")[0] == rr) >= 3:
            continue
        seen_rules.add(rr)
        samples.append({"rule": r, "where": w, "what": what[:300]})
    cov = {
        "explanation": rep.explanation,
        "evaluations": len(rep.obligations),
        "distinct_nontrivial": distinct,
        "rule": "one evaluation = one rule instance (a function, handler, table row, call site or formula) "
        "found in the current /repo source and checked against the rule's oracle; distinct = distinct "
        "(rule, location, obligation) triples",
        "obligations": len(rep.obligations),
        "discharged": len([o for o in rep.obligations if not o[2].startswith("FAILED")]),
        "per_rule": per_rule,
        "counts": rep.counts,
        "samples": samples,
        "info": [{"rule": r, "where": w, "what": what[:300]} for r, w, what in rep.infos[:40]],
        "known_findings_matched": nknown,
    }
    if rep.exhaustive is not None:
        cov["exhaustive"] = rep.exhaustive
    cov.update(rep.extra)
    if rep.level == "proof":
        cov.setdefault("checker_cmd", f"./check {rep.property_id}")
        cov.setdefault("trusted_base", ["python ast", "fractions.Fraction", "/verif/sa/lift.py", "/verif/sa/poly.py"])
    ev = {
        "property_id": rep.property_id,
        "tier": tier,
        "seed": seed,
        "level": rep.level,
        "coverage": cov,
        "assumptions": rep.assumptions,
        "wall_s": round(wall, 3),
        "violations": nviol,
    }
    os.makedirs(os.path.join(outroot(), "evidence"), exist_ok=True)
    with open(os.path.join(outroot(), "evidence", f"{rep.property_id}.json"), "w") as fh:
        json.dump(ev, fh, indent=1, default=str)
