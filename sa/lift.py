"""E6 -- lifting of function bodies to terms.

An abstract interpreter for the subset of Python in which UFL writes its formula tables.
Python-level data (ints, tuples, lists, ranges, strings, literal tables) is evaluated by constant
propagation; loops over such data are unrolled; calls to functions of the repository are
inlined from their *source* (never imported, never executed); UFL values are elements of the
dense symbolic tensor algebra of uflsem/sym.  Branch conditions must be decidable from the
propagated constants (shapes, dimensions, names), otherwise the lift fails with Unsupported
(reported as ANALYSIS-ERROR, never as a violation).
"""

from __future__ import annotations

import ast
import itertools
import operator
import threading
from fractions import Fraction

from . import sym, uflsem
from .model import AnalysisError, ClassInfo, FuncInfo, Module, Program, norm
from .uflsem import Idx, SemError, T


class Unsupported(AnalysisError):
    pass


class LiftRaise(Exception):
    """The lifted path ends in `raise`."""

    def __init__(self, what, node=None, mod=None):
        super().__init__(what)
        self.what = what
        self.node = node
        self.file = getattr(mod, "relpath", None)


class _Return(Exception):
    def __init__(self, value):
        self.value = value


class _Break(Exception):
    pass


class _Continue(Exception):
    pass


class Obj:
    """Abstract object with attributes/methods supplied by the rule (domains, elements, nodes)."""

    def __init__(self, kind, **attrs):
        self.kind = kind
        self.attrs = attrs

    def __repr__(self):
        return f"<{self.kind}>"


class Closure:
    def __init__(self, node, env, module, interp, cls=None, self_obj=None, name=None):
        self.node = node
        self.env = env
        self.module = module
        self.interp = interp
        self.cls = cls
        self.self_obj = self_obj
        self.name = name or getattr(node, "name", "<lambda>")

    def __call__(self, *args, **kwargs):
        return self.interp.call_closure(self, list(args), kwargs)


class ModelledClass:
    """A repository class whose constructor is replaced by a reference model; keeps the
    ClassInfo so that isinstance / attribute lookups still see the class."""

    def __init__(self, info, model):
        self.info = info
        self.model = model
        self.name = info.name

    def __call__(self, *a, **k):
        return self.model(*a, **k)


class BoundMethod:
    def __init__(self, interp, fi, self_obj):
        self.interp = interp
        self.fi = fi
        self.self_obj = self_obj

    def __call__(self, *args, **kwargs):
        return self.interp.call_function(self.fi, list(args), kwargs, self_obj=self.self_obj)


class _GenExit(BaseException):
    """raised at the suspended yield of a lazy generator that is closed before it finished"""


class _GenState:
    """State of one lifted generator: its body is interpreted in a thread of its own, which holds the interpreter
    exactly while the consumer waits in next() - the two never run at the same time, so this is plain coroutine
    hand-over (statements of producer and consumer interleave as they do in Python), not concurrency."""

    def __init__(self, ip, clo, args, kwargs):
        self.ip, self.clo, self.args, self.kwargs = ip, clo, args, kwargs
        self.thread = None
        self.done = False
        self.running = False
        self.closing = False
        self.to_gen = threading.Semaphore(0)
        self.to_consumer = threading.Semaphore(0)
        self.out = None
        self.inject = None
        self.saved = (0, [])
        self.base = (0, 0)

    def resume(self, exc=None):
        if self.done:
            if exc is not None:
                raise exc
            raise StopIteration
        if self.running:
            raise Unsupported("generator already executing")
        ip = self.ip
        if self.thread is None and exc is not None:
            self.done = True
            raise exc
        self.inject = exc
        ys = ip.__dict__.setdefault("_yields", [])
        self.base = (ip.depth, len(ys))
        d, mine = self.saved
        ip.depth += d
        ys.extend(mine)
        self.running = True
        if self.thread is None:
            self.thread = threading.Thread(target=self._run, daemon=True)
            self.thread.start()
        else:
            self.to_gen.release()
        self.to_consumer.acquire()
        self.running = False
        kind, v = self.out
        self.out = None
        if kind == "yield":
            return v
        self.done = True
        if kind == "return":
            raise StopIteration(v)
        raise v

    def _run(self):
        ip = self.ip
        ip._yields.append(self)
        try:
            out = ("return", ip._call_closure(self.clo, self.args, self.kwargs))
        except _GenExit:
            out = ("return", None)
        except BaseException as e:  # handed to the consumer, which re-raises it from next()
            out = ("raise", e)
        d0, y0 = self.base
        del ip._yields[y0:]
        ip.depth = d0
        self.out = out
        self.to_consumer.release()

    def suspend(self, v):
        ip = self.ip
        d0, y0 = self.base
        self.saved = (ip.depth - d0, ip._yields[y0:])
        ip.depth = d0
        del ip._yields[y0:]
        self.out = ("yield", v)
        self.to_consumer.release()
        self.to_gen.acquire()
        if self.closing:
            raise _GenExit()
        exc, self.inject = self.inject, None
        if exc is not None:
            raise exc
        return None

    def close(self):
        if self.done or self.thread is None:
            self.done = True
            return
        if self.running:
            return
        self.closing = True
        try:
            self.resume(None)
        except BaseException:
            pass
        self.done = True


class LazyGen:
    """generator object of a lifted generator function"""

    def __init__(self, ip, clo, args, kwargs):
        self._st = _GenState(ip, clo, args, kwargs)

    def __iter__(self):
        return self

    def __next__(self):
        return self._st.resume(None)

    def throw(self, exc):
        return self._st.resume(exc)

    def close(self):
        self._st.close()

    def __del__(self):
        try:
            self._st.close()
        except BaseException:
            pass


class _CtxMgr:
    """what a @contextmanager function returns: enter runs the generator to its yield, exit runs the rest"""

    def __init__(self, gen):
        self.gen = gen

    def enter(self):
        try:
            return next(self.gen)
        except StopIteration:
            raise LiftRaise("RuntimeError: generator didn't yield")

    def exit(self, exc):
        if exc is None:
            try:
                next(self.gen)
            except StopIteration:
                return False
            raise LiftRaise("RuntimeError: generator didn't stop")
        try:
            self.gen.throw(exc)
        except StopIteration:
            return True  # the generator handled the exception: the with statement suppresses it
        except BaseException as e2:
            if e2 is exc:
                return False
            raise
        raise LiftRaise("RuntimeError: generator didn't stop after throw()")


class NumTypecodes(int):
    """Expr._ufl_num_typecodes_ in a world where a type's typecode is its name: `[x] * n` is a table with one
    entry per type, indexed by typecode"""


class TypecodeTable(dict):
    """`[default] * Expr._ufl_num_typecodes_`: one slot per registered type, addressed by the type's typecode"""

    __lift_host__ = True

    def __init__(self, default, n):
        super().__init__()
        self.default, self.n = default, n

    def __missing__(self, k):
        if isinstance(k, str):
            return self.default
        raise LiftRaise(f"TypeError: typecode table indexed by {k!r}")

    def __len__(self):
        return self.n


class GenExp:
    """a generator expression: its outermost iterable is evaluated where the expression stands, everything else when it
    is first consumed - names it refers to are looked up then (late binding), as in Python.  Unlike a Python generator it
    can be iterated again (the values are kept), which only matters for code that would be wrong in Python anyway."""

    def __init__(self, thunk):
        self._thunk, self._values, self._cursor = thunk, None, 0

    def values(self):
        if self._values is None:
            self._values = list(self._thunk())
            self._thunk = None
        return self._values

    def __iter__(self):
        return iter(self.values())

    def __next__(self):
        vs = self.values()
        if self._cursor >= len(vs):
            raise StopIteration
        self._cursor += 1
        return vs[self._cursor - 1]


class _Deque(list):
    """collections.deque over the list model (same order, both ends)"""

    def appendleft(self, x):
        self.insert(0, x)

    def popleft(self):
        if not self:
            raise LiftRaise("IndexError: pop from an empty deque")
        return self.pop(0)

    def extendleft(self, xs):
        for x in xs:
            self.insert(0, x)

    def rotate(self, n=1):
        if self:
            n %= len(self)
            self[:] = self[-n:] + self[:-n]



class Env:
    def __init__(self, parent=None):
        self.vars = {}
        self.parent = parent

    def lookup(self, name):
        e = self
        while e is not None:
            if name in e.vars:
                return True, e.vars[name]
            e = e.parent
        return False, None

    def set(self, name, value):
        self.vars[name] = value


_BINOPS = {
    ast.Add: operator.add,
    ast.Sub: operator.sub,
    ast.Mult: operator.mul,
    ast.Div: operator.truediv,
    ast.FloorDiv: operator.floordiv,
    ast.Mod: operator.mod,
    ast.Pow: operator.pow,
    ast.BitOr: operator.or_,
    ast.BitAnd: operator.and_,
    ast.BitXor: operator.xor,
}
_DUNDER_BIN = {
    ast.Add: ("__add__", "__radd__"),
    ast.Sub: ("__sub__", "__rsub__"),
    ast.Mult: ("__mul__", "__rmul__"),
    ast.Div: ("__truediv__", "__rtruediv__"),
    ast.Pow: ("__pow__", "__rpow__"),
    ast.MatMult: ("__matmul__", "__rmatmul__"),
    ast.BitXor: ("__xor__", "__rxor__"),
    ast.BitAnd: ("__and__", "__rand__"),
    ast.BitOr: ("__or__", "__ror__"),
    ast.Mod: ("__mod__", "__rmod__"),
    ast.FloorDiv: ("__floordiv__", "__rfloordiv__"),
}
_CMPOPS = {
    ast.Eq: operator.eq,
    ast.NotEq: operator.ne,
    ast.Lt: operator.lt,
    ast.LtE: operator.le,
    ast.Gt: operator.gt,
    ast.GtE: operator.ge,
    ast.Is: operator.is_,
    ast.IsNot: operator.is_not,
    ast.In: lambda a, b: a in b,
    ast.NotIn: lambda a, b: a not in b,
}


def _num(v):
    """floats are exact rationals in the lifted world"""
    if isinstance(v, float):
        if v != v or v in (float("inf"), float("-inf")):
            return v
        return Fraction(repr(v))
    return v


class Interp:
    def __init__(self, prog: Program, overrides=None, class_models=None, max_depth=40):
        self.prog = prog
        self.overrides = dict(DEFAULT_OVERRIDES)
        if overrides:
            self.overrides.update(overrides)
        self.class_models = dict(class_models or {})
        self.max_depth = max_depth
        self.depth = 0
        self.trace = []  # inlined functions (evidence)
        self.isinstance_hook = None
        self.attr_hook = None
        self.method_hook = None
        self.skip_functions = set()  # 'Class.method' names whose calls are no-ops in the model
        self.module_globals = {}
        self.class_attrs = {}  # (module, class, attr) -> value assigned to a class attribute during lifting
        self.overrides.setdefault("set", lambda x=(): self._make_set(x, set))
        self.overrides.setdefault("frozenset", lambda x=(): self._make_set(x, frozenset))
        self.instantiable = set()  # names of repository classes that may be instantiated from source

    # ------------------------------------------------------------------ calls
    def call_function(self, fi: FuncInfo, args, kwargs=None, self_obj=None):
        clo = Closure(fi.node, Env(), fi.module, self, cls=fi.cls, self_obj=self_obj, name=fi.qualname)
        if self_obj is not None:
            args = [self_obj] + list(args)
        return self.call_closure(clo, list(args), kwargs or {})

    # generator functions: a call returns a LazyGen whose body is interpreted step by step as the consumer asks for
    # values (Python's own interleaving of producer and consumer; @contextmanager functions become context managers).
    # With `eager_generators = True` a call runs the body at once and returns the list of yielded values - cheaper,
    # and sound where the consumer does not change the state that the generator reads between two yields (the
    # traversal / extraction helpers of ufl.corealg.traversal and ufl.algorithms.analysis).
    eager_generators = False
    _GEN_CACHE: dict = {}

    @staticmethod
    def _is_generator(node):
        r = Interp._GEN_CACHE.get(id(node))
        if r is None:
            r = False
            if isinstance(node, (ast.FunctionDef, ast.AsyncFunctionDef)):
                stack = list(node.body)
                while stack:
                    n = stack.pop()
                    if isinstance(n, (ast.Yield, ast.YieldFrom)):
                        r = True
                        break
                    if isinstance(n, (ast.FunctionDef, ast.AsyncFunctionDef, ast.Lambda, ast.ClassDef)):
                        continue
                    stack.extend(ast.iter_child_nodes(n))
            Interp._GEN_CACHE[id(node)] = r
        return r

    def e_Yield(self, e, env, mod):
        ys = self.__dict__.get("_yields")
        if not ys:
            raise Unsupported("expression Yield: (yield expr)")
        v = self.eval(e.value, env, mod) if e.value is not None else None
        if isinstance(ys[-1], list):
            ys[-1].append(v)
            return None
        return ys[-1].suspend(v)

    def e_YieldFrom(self, e, env, mod):
        ys = self.__dict__.get("_yields")
        if not ys:
            raise Unsupported("expression YieldFrom")
        src = self.eval(e.value, env, mod)
        for v in src if isinstance(src, LazyGen) else self.iterate(src, e.value):
            if isinstance(ys[-1], list):
                ys[-1].append(v)
            else:
                ys[-1].suspend(v)
        return None

    @staticmethod
    def _is_contextmanager(node):
        return any(norm(d).split(".")[-1] == "contextmanager" for d in getattr(node, "decorator_list", ()))

    def call_closure(self, clo: Closure, args, kwargs):
        if self._is_generator(clo.node):
            ctx = self._is_contextmanager(clo.node)
            if self.eager_generators and not ctx:
                ys = self.__dict__.setdefault("_yields", [])
                ys.append([])
                n = len(ys)
                try:
                    self._call_closure(clo, args, kwargs)
                    return ys[n - 1]
                finally:
                    del ys[n - 1 :]
            g = LazyGen(self, clo, list(args), dict(kwargs))
            return _CtxMgr(g) if ctx else g
        return self._call_closure(clo, args, kwargs)

    def _call_closure(self, clo: Closure, args, kwargs):
        node = clo.node
        if clo.name in self.skip_functions or (clo.cls is not None and f"{clo.cls.name}.{getattr(node, 'name', '')}" in self.skip_functions):
            return None
        self.depth += 1
        if self.depth > self.max_depth:
            self.depth -= 1
            raise Unsupported(f"inlining depth exceeded at {clo.name}")
        try:
            env = Env(clo.env)
            self._bind_params(node, env, args, kwargs, clo)
            if clo.cls is not None and args:
                env.set("__super_ctx__", (clo.cls, args[0]))
            if isinstance(node, ast.Lambda):
                return self.eval(node.body, env, clo.module)
            self.trace.append(clo.name)
            try:
                self.exec_block(node.body, env, clo.module)
            except _Return as r:
                return r.value
            return None
        finally:
            self.depth -= 1

    def _bind_params(self, node, env, args, kwargs, clo):
        a = node.args
        params = [p.arg for p in a.posonlyargs + a.args]
        defaults = list(a.defaults)
        ndef = len(defaults)
        args = list(args)
        for k, p in enumerate(params):
            if k < len(args):
                env.set(p, args[k])
            elif p in kwargs:
                env.set(p, kwargs.pop(p))
            else:
                di = k - (len(params) - ndef)
                if di < 0:
                    raise Unsupported(f"missing argument {p} calling {clo.name}")
                env.set(p, self.eval(defaults[di], clo.env, clo.module))
        extra = args[len(params) :]
        if a.vararg:
            env.set(a.vararg.arg, tuple(extra))
        elif extra:
            raise Unsupported(f"too many arguments calling {clo.name}")
        for p, d in zip(a.kwonlyargs, a.kw_defaults):
            if p.arg in kwargs:
                env.set(p.arg, kwargs.pop(p.arg))
            elif d is not None:
                env.set(p.arg, self.eval(d, clo.env, clo.module))
            else:
                raise Unsupported(f"missing keyword argument {p.arg} calling {clo.name}")
        if a.kwarg:
            env.set(a.kwarg.arg, dict(kwargs))
        elif kwargs:
            raise Unsupported(f"unexpected keyword arguments {list(kwargs)} calling {clo.name}")

    # ------------------------------------------------------------- statements
    def exec_block(self, stmts, env, mod):
        for st in stmts:
            self.exec_stmt(st, env, mod)

    def exec_stmt(self, st, env, mod):
        if isinstance(st, ast.Expr):
            if isinstance(st.value, ast.Constant):
                return
            self.eval(st.value, env, mod)
        elif isinstance(st, ast.Assign):
            v = self.eval(st.value, env, mod)
            for t in st.targets:
                self.assign(t, v, env, mod)
        elif isinstance(st, ast.AnnAssign):
            if st.value is not None:
                self.assign(st.target, self.eval(st.value, env, mod), env, mod)
        elif isinstance(st, ast.AugAssign):
            cur = self.eval(_load(st.target), env, mod)
            if isinstance(cur, list) and isinstance(st.op, ast.Add):
                cur.extend(self.iterate(self.eval(st.value, env, mod), st.value))  # in place, like list.__iadd__
                return
            if isinstance(cur, set) and isinstance(st.op, (ast.Sub, ast.BitOr, ast.BitAnd)):
                rhs = self.eval(st.value, env, mod)
                if isinstance(st.op, ast.Sub):
                    cur -= rhs
                elif isinstance(st.op, ast.BitOr):
                    cur |= rhs
                else:
                    cur &= rhs
                return
            rhs = self.eval(st.value, env, mod)
            inplace = {ast.Add: "__iadd__", ast.Sub: "__isub__", ast.Mult: "__imul__", ast.BitOr: "__ior__", ast.BitAnd: "__iand__"}.get(type(st.op))
            if inplace and self.obj_class(cur) is not None:
                m, _ = self.find_method(self.obj_class(cur), inplace)
                if m is not None:
                    v = self.call_function(m, [rhs], {}, self_obj=cur)
                    if v is not NotImplemented:
                        self.assign(st.target, v, env, mod)
                        return
            v = self.binop(type(st.op), cur, rhs, st)
            self.assign(st.target, v, env, mod)
        elif isinstance(st, ast.Return):
            raise _Return(self.eval(st.value, env, mod) if st.value is not None else None)
        elif isinstance(st, ast.If):
            c = self.truth(self.eval(st.test, env, mod), st.test)
            self.exec_block(st.body if c else st.orelse, env, mod)
        elif isinstance(st, ast.For):
            it = self.eval(st.iter, env, mod)
            if not isinstance(it, LazyGen):
                it = self.iterate(it, st.iter)
            broke = False
            for x in it:
                self.assign(st.target, x, env, mod)
                try:
                    self.exec_block(st.body, env, mod)
                except _Break:
                    broke = True
                    break
                except _Continue:
                    continue
            if not broke:
                self.exec_block(st.orelse, env, mod)
        elif isinstance(st, ast.While):
            n = 0
            while self.truth(self.eval(st.test, env, mod), st.test):
                n += 1
                if n > 10000:
                    raise Unsupported("while loop does not terminate under constant propagation")
                try:
                    self.exec_block(st.body, env, mod)
                except _Break:
                    break
                except _Continue:
                    continue
        elif isinstance(st, ast.Raise):
            raise LiftRaise(norm(st.exc) if st.exc else "raise", st, mod)
        elif isinstance(st, ast.Assert):
            try:
                ok = self.truth(self.eval(st.test, env, mod), st.test)
            except Unsupported:
                ok = True
            if not ok:
                raise LiftRaise("AssertionError: " + norm(st.test), st)
        elif isinstance(st, (ast.FunctionDef,)):
            env.set(st.name, Closure(st, env, mod, self))
        elif isinstance(st, ast.Pass):
            pass
        elif isinstance(st, ast.Break):
            raise _Break()
        elif isinstance(st, ast.Continue):
            raise _Continue()
        elif isinstance(st, (ast.Import, ast.ImportFrom)):
            # local imports: bind lazily through a module shim
            self._local_import(st, env, mod)
        elif isinstance(st, ast.Try):
            try:
                try:
                    self.exec_block(st.body, env, mod)
                except LiftRaise as e:
                    handled = False
                    for h in st.handlers:
                        hn = norm(h.type) if h.type is not None else ""
                        if not hn or hn.split(".")[-1] in e.what or hn in ("Exception", "BaseException"):
                            if h.name:
                                env.set(h.name, Obj("exception", what=e.what))
                            self.exec_block(h.body, env, mod)
                            handled = True
                            break
                    if not handled:
                        raise
                else:
                    self.exec_block(st.orelse, env, mod)
            except AnalysisError:
                raise  # the analysis is giving up: nothing further is interpreted
            except BaseException:
                self.exec_block(st.finalbody, env, mod)
                raise
            self.exec_block(st.finalbody, env, mod)
        elif isinstance(st, ast.With):
            entered = []
            for item in st.items:
                v = self.eval(item.context_expr, env, mod)
                if isinstance(v, _CtxMgr):
                    entered.append(v)
                    v = v.enter()
                if item.optional_vars is not None:
                    self.assign(item.optional_vars, v, env, mod)
            try:
                self.exec_block(st.body, env, mod)
            except AnalysisError:
                raise
            except LiftRaise as ex:
                if not any([cm.exit(ex) for cm in reversed(entered)]):
                    raise
            except BaseException:
                # return / break / continue leave the block normally
                for cm in reversed(entered):
                    cm.exit(None)
                raise
            else:
                for cm in reversed(entered):
                    cm.exit(None)
        elif isinstance(st, ast.Delete):
            pass
        elif isinstance(st, (ast.Global, ast.Nonlocal)):
            raise Unsupported("global/nonlocal in lifted code")
        else:
            raise Unsupported(f"statement {type(st).__name__} at line {st.lineno}")

    def _local_import(self, st, env, mod):
        if isinstance(st, ast.Import):
            for a in st.names:
                nm = a.asname or a.name.split(".")[0]
                target = a.name if a.asname else a.name.split(".")[0]
                if nm in self.overrides:
                    env.set(nm, self.overrides[nm])
                elif target in self.prog.modules:
                    env.set(nm, self.prog.modules[target])
                else:
                    env.set(nm, Obj("extmodule", name=target))
            return
        parts = mod.name.split(".")
        is_pkg = mod.path.endswith("__init__.py")
        if st.level:
            base = parts if is_pkg else parts[:-1]
            base = base[: len(base) - (st.level - 1)]
            modname = ".".join(base + ([st.module] if st.module else []))
        else:
            modname = st.module
        for a in st.names:
            nm = a.asname or a.name
            if a.name in self.overrides:
                env.set(nm, self.overrides[a.name])
                continue
            full = f"{modname}.{a.name}"
            if full in self.prog.modules:
                env.set(nm, self.prog.modules[full])
                continue
            tm = self.prog.modules.get(modname)
            if tm is None:
                env.set(nm, Obj("extmodule", name=full))
                continue
            r = self.prog.resolve_name(tm, a.name)
            if r is None:
                raise Unsupported(f"cannot resolve local import {full}")
            env.set(nm, self.entity_value(r, tm, a.name))

    def assign(self, target, value, env, mod):
        if isinstance(target, ast.Name):
            env.set(target.id, value)
        elif isinstance(target, (ast.Tuple, ast.List)):
            vals = list(self.iterate(value, target))
            star = [k for k, e in enumerate(target.elts) if isinstance(e, ast.Starred)]
            if star:
                k = star[0]
                nafter = len(target.elts) - k - 1
                if len(vals) < len(target.elts) - 1:
                    raise LiftRaise("ValueError: not enough values to unpack", target)
                for e, v in zip(target.elts[:k], vals[:k]):
                    self.assign(e, v, env, mod)
                self.assign(target.elts[k].value, list(vals[k : len(vals) - nafter]), env, mod)
                for e, v in zip(target.elts[k + 1 :], vals[len(vals) - nafter :]):
                    self.assign(e, v, env, mod)
            else:
                if len(vals) != len(target.elts):
                    raise LiftRaise(f"ValueError: cannot unpack {len(vals)} values into {len(target.elts)}", target)
                for e, v in zip(target.elts, vals):
                    self.assign(e, v, env, mod)
        elif isinstance(target, ast.Subscript):
            obj = self.eval(target.value, env, mod)
            key = self.eval(target.slice, env, mod)
            if isinstance(obj, (list, dict)):
                obj[_hashable(key)] = value
            elif getattr(type(obj), "__lift_host__", False) and hasattr(obj, "__setitem__"):
                obj[key] = value
            else:
                raise Unsupported(f"subscript store on {type(obj).__name__}")
        elif isinstance(target, ast.Attribute):
            obj = self.eval(target.value, env, mod)
            if isinstance(obj, Obj):
                obj.attrs[target.attr] = value
            elif isinstance(obj, (ClassInfo, ModelledClass)):
                # class attribute assigned at run time (e.g. the per-class counter of Counted)
                k = obj.info if isinstance(obj, ModelledClass) else obj
                self.class_attrs[(k.module.name, k.name, target.attr)] = value
            else:
                raise Unsupported(f"attribute store on {type(obj).__name__}")
        else:
            raise Unsupported(f"assignment target {type(target).__name__}")

    # ------------------------------------------------------------ expressions
    def truth(self, v, node=None):
        if isinstance(v, (T, sym.Ex)):
            raise Unsupported(f"branch on a symbolic value: {norm(node) if node is not None else v}")
        if isinstance(v, Obj):
            if "__bool__" in v.attrs:
                return bool(v.attrs["__bool__"])
            k = self.obj_class(v)
            if k is not None and getattr(self, "honor_new", False):
                for dn in ("__bool__", "__len__"):
                    m, _ = self.find_method(k, dn)
                    if m is not None:
                        return bool(self.call_function(m, [], {}, self_obj=v))
            return True
        return bool(v)

    def iterate(self, v, node=None):
        if isinstance(v, (tuple, list, range, dict, set, frozenset, str)):
            return list(v)
        if isinstance(v, T):
            return list(v)
        if isinstance(v, Obj) and "__iter__" in v.attrs:
            return list(v.attrs["__iter__"])
        if self.obj_class(v) is not None:
            m, _ = self.find_method(self.obj_class(v), "__iter__")
            if m is not None:
                return list(self.call_function(m, [], {}, self_obj=v))
        if hasattr(v, "__iter__") and not isinstance(v, (Obj,)):
            return list(v)
        if v is None or isinstance(v, (bool, int, float, Fraction, complex)):
            raise LiftRaise(f"TypeError: '{type(v).__name__}' object is not iterable", node)
        raise Unsupported(f"cannot iterate over {v!r} ({norm(node) if node is not None else ''})")

    def binop(self, op, a, b, node=None):
        a, b = _num(a), _num(b)
        hook = getattr(self, "binop_hook", None)
        if hook is not None:
            r = hook(op, a, b, node)
            if r is not NotImplemented:
                return r
        f = _BINOPS.get(op)
        if f is None:
            raise Unsupported(f"operator {op.__name__}")
        if op is ast.Mult and isinstance(a, list) and len(a) == 1 and isinstance(b, NumTypecodes):
            return TypecodeTable(a[0], int(b))
        _alias = getattr(self, "pytype_alias", None) or {}
        _is_t = lambda x: isinstance(x, (ClassInfo, TypeUnion, ModelledClass, type, _NumTower)) or (callable(x) and not isinstance(x, Obj) and (x in _PYTYPES or x in _alias))  # noqa: E731
        if op is ast.BitOr and (_is_t(a) or _is_t(b)) and not isinstance(a, (set, dict)) and not isinstance(b, (set, dict)):
            la = list(a) if isinstance(a, TypeUnion) else [a]
            lb = list(b) if isinstance(b, TypeUnion) else [b]
            return TypeUnion(la + lb)
        if (self.obj_class(a) is not None or self.obj_class(b) is not None) and op in _DUNDER_BIN:
            return self.obj_binop(op, a, b, node)
        if isinstance(a, sym.Ex):
            a = T.scalar(a)
        if isinstance(b, sym.Ex):
            b = T.scalar(b)
        try:
            if op is ast.Div and not isinstance(a, T) and not isinstance(b, T):
                if isinstance(a, (int, Fraction)) and isinstance(b, (int, Fraction)):
                    if b == 0:
                        raise LiftRaise("ZeroDivisionError", node)
                    return Fraction(a) / Fraction(b)
            if op is ast.Pow and isinstance(a, (int, Fraction)) and isinstance(b, Fraction) and b.denominator != 1:
                return T.scalar(sym.power(sym.const(a), sym.const(b)))
            if op is ast.Pow and isinstance(a, (int, Fraction)) and isinstance(b, (int, Fraction)) and b < 0 and a != 0:
                return Fraction(a) ** int(b)
            if isinstance(a, list) and isinstance(b, tuple) or isinstance(a, tuple) and isinstance(b, list):
                raise LiftRaise("TypeError: list + tuple", node)
            return f(a, b)
        except SemError as e:
            raise LiftRaise(f"ill-formed UFL operation: {e}", node)
        except ZeroDivisionError:
            raise LiftRaise("ZeroDivisionError", node)
        except TypeError as e:
            raise Unsupported(f"binary operation {op.__name__} on {type(a).__name__}, {type(b).__name__}: {e}")

    def eval(self, e, env, mod):
        m = getattr(self, "e_" + type(e).__name__, None)
        if m is None:
            raise Unsupported(f"expression {type(e).__name__}: {norm(e)[:80]}")
        return m(e, env, mod)

    def e_Constant(self, e, env, mod):
        return _num(e.value)

    def e_Name(self, e, env, mod):
        found, v = env.lookup(e.id)
        if found:
            return v
        return self.global_name(e.id, mod, e)

    def exec_module_level(self, modname, want=None):
        """Evaluate the module-level assignments of a module (in order) into a persistent
        global table, so that later references see the same objects.  `want(stmt)` filters."""
        mod = self.prog.module(modname)
        g = self.module_globals.setdefault(modname, {})
        env = Env()
        env.vars = g
        for st in mod.tree.body:
            if isinstance(st, (ast.Assign, ast.AnnAssign)) and (want is None or want(st)):
                self.exec_stmt(st, env, mod)
        return g

    def global_name(self, name, mod, node=None):
        if name in self.overrides:
            return self.overrides[name]
        g = self.module_globals.get(mod.name)
        if g is not None and name in g:
            return g[name]
        r = self.prog.resolve_name(mod, name)
        if r is not None:
            return self.entity_value(r, mod, name)
        if name in BUILTINS:
            return BUILTINS[name]
        if name in mod.imports:
            imp = mod.imports[name]
            full = imp[1] if imp[0] == "module" else f"{imp[1]}.{imp[2]}"
            if full in STDLIB:
                return STDLIB[full]
            return Obj("extmodule", name=full)
        raise Unsupported(f"unresolved name {name} in {mod.name}")

    def entity_value(self, r, mod, name):
        if isinstance(r, FuncInfo):
            key = f"{r.module.name}.{r.qualname}"
            if key in self.overrides:
                return self.overrides[key]
            if r.name in self.overrides:
                return self.overrides[r.name]
            return Closure(r.node, Env(), r.module, self, cls=r.cls, name=key)
        if isinstance(r, ClassInfo):
            if r.name in self.class_models:
                cmod = self.class_models[r.name]
                return cmod if isinstance(cmod, ClassInfo) else ModelledClass(r, cmod)
            if r.name in self.overrides:
                return ModelledClass(r, self.overrides[r.name])
            return r
        if isinstance(r, Module):
            return r
        if isinstance(r, ast.AST):
            # module level constant expression: evaluate in its module
            owner = mod
            for m in self.prog.modules.values():
                if name in m.assigns and m.assigns[name] is r:
                    owner = m
                    break
            if self._mutated_at_module_level(owner, name):
                # a module-level table filled by later module-level statements (t[k] = v, t.update(..)):
                # evaluate those statements too, once, and keep the object
                def mentions(st):
                    tgt = [st.target] if isinstance(st, ast.AnnAssign) else getattr(st, "targets", [])
                    for t in tgt:
                        base = t
                        while isinstance(base, ast.Subscript):
                            base = base.value
                        if isinstance(base, ast.Name) and base.id == name:
                            return True
                    return False

                g = self.exec_module_level(owner.name, want=mentions)
                return g[name]
            return self.eval(r, Env(), owner)
        raise Unsupported(f"cannot use {r!r}")

    def _mutated_at_module_level(self, owner, name):
        cache = self.__dict__.setdefault("_mut_cache", {})
        key = (owner.name, name)
        if key not in cache:
            hit = False
            for st in owner.tree.body:
                if isinstance(st, ast.Assign):
                    for t in st.targets:
                        if isinstance(t, ast.Subscript):
                            base = t
                            while isinstance(base, ast.Subscript):
                                base = base.value
                            if isinstance(base, ast.Name) and base.id == name:
                                hit = True
            cache[key] = hit
        return cache[key]

    def e_Attribute(self, e, env, mod):
        obj = self.eval(e.value, env, mod)
        return self.getattr(obj, e.attr, e, mod)

    def getattr(self, obj, attr, node, mod):
        if self.attr_hook is not None:
            r = self.attr_hook(obj, attr)
            if r is not NotImplemented:
                return r
        if isinstance(obj, T):
            if attr == "ufl_shape":
                return obj.shape
            if attr == "T":
                return obj.T
            if attr == "ufl_free_indices":
                return tuple(i.id for i in obj.fi)
            if attr == "ufl_index_dimensions":
                return obj.fid
            if attr == "dx":
                gd = obj.tags.get("gdim")
                return lambda *ii: self._dx(obj, ii)
            if attr in obj.tags:
                return obj.tags[attr]
            if obj.tags.get("ufl_class") == "Variable" and attr in ("expression", "label") and len(obj.tags.get("ufl_operands", ())) == 2:
                return lambda: obj.tags["ufl_operands"][0 if attr == "expression" else 1]
            raise Unsupported(f"attribute {attr} of a UFL value ({norm(node)})")
        if isinstance(obj, Obj) and obj.kind == "super":
            cur, slf = obj.attrs["_cls"], obj.attrs["_self"]
            if isinstance(slf, ModelledClass):
                slf = slf.info
            if isinstance(slf, ClassInfo):
                # super() inside __new__ / a classmethod: the first argument is the class
                mro = slf.mro()
                if cur not in mro:
                    raise Unsupported("super(): class not in MRO of cls")
                for k in mro[mro.index(cur) + 1 :]:
                    if attr in k.methods:
                        m = k.methods[attr]
                        return Closure(m.node, Env(), m.module, self, cls=m.cls, name=f"{k.name}.{attr}")
                if attr == "__new__":
                    return self.object_new
                raise Unsupported(f"super().{attr} not found (class context)")
            k0 = slf.attrs.get("__class__") if isinstance(slf, Obj) else None
            if not isinstance(k0, ClassInfo):
                raise Unsupported("super() on an object without a modelled class")
            mro = k0.mro()
            if cur not in mro:
                raise Unsupported("super(): class not in MRO of self")
            for k in mro[mro.index(cur) + 1 :]:
                if attr in k.methods:
                    return BoundMethod(self, k.methods[attr], slf)
            if attr == "__init__":
                return lambda *a, **kw: None
            if attr == "__new__":
                return self.object_new
            raise Unsupported(f"super().{attr} not found")
        if isinstance(obj, Obj):
            if attr in obj.attrs:
                return obj.attrs[attr]
            if obj.kind == "extmodule" and f"{obj.attrs.get('name')}.{attr}" in STDLIB:
                return STDLIB[f"{obj.attrs['name']}.{attr}"]
            k = obj.attrs.get("__class__")
            if isinstance(k, ClassInfo):
                r = self.prog.lookup(k, attr)
                if isinstance(r, FuncInfo):
                    decos = r.decorators()
                    if "property" in decos or "abstractproperty" in decos:
                        return self.call_function(r, [], {}, self_obj=obj)
                    if "staticmethod" in decos:
                        return Closure(r.node, Env(), r.module, self, cls=r.cls, name=f"{k.name}.{attr}")
                    return BoundMethod(self, r, obj)
                if self.class_attrs:
                    for kk in k.mro():
                        if (kk.module.name, kk.name, attr) in self.class_attrs:
                            return self.class_attrs[(kk.module.name, kk.name, attr)]
                if isinstance(r, ast.AST):
                    return self._class_body_value(k, attr, r)
                if getattr(self, "type_model", None) is not None:
                    r = self.ufl_type_attr(k, attr, obj)
                    if r is not NotImplemented:
                        return r
                if obj.attrs.get("__initialised_from_source__"):
                    # the object's attributes were all produced by lifting its own __init__: a missing
                    # attribute is an AttributeError at run time
                    raise LiftRaise(f"AttributeError: '{k.name}' object has no attribute '{attr}'", node)
            raise Unsupported(f"attribute {attr} of abstract object {obj.kind} ({norm(node) if node is not None else attr})")
        if isinstance(obj, Module):
            sub = f"{obj.name}.{attr}"
            if sub in self.prog.modules:
                return self.prog.modules[sub]
            r = self.prog.resolve_name(obj, attr)
            if r is None:
                raise Unsupported(f"{obj.name}.{attr} not found")
            return self.entity_value(r, obj, attr)
        if isinstance(obj, ModelledClass):
            obj = obj.info
        if isinstance(obj, ClassInfo) and self.class_attrs:
            for k in obj.mro():
                if (k.module.name, k.name, attr) in self.class_attrs:
                    return self.class_attrs[(k.module.name, k.name, attr)]
        if isinstance(obj, ClassInfo) and attr == "__name__":
            return obj.name
        if isinstance(obj, ClassInfo) and attr == "_ufl_typecode_":
            return obj.name
        if isinstance(obj, ClassInfo) and attr == "_ufl_handler_name_":
            from .types import camel2underscore

            return camel2underscore(obj.name)
        if isinstance(obj, ClassInfo):
            r = self.prog.lookup(obj, attr)
            if isinstance(r, FuncInfo):
                return Closure(r.node, Env(), r.module, self, cls=r.cls, name=f"{obj.name}.{attr}")
            if isinstance(r, ast.AST):
                return self._class_body_value(obj, attr, r)
            if attr == "__new__":
                # no __new__ in the repository MRO: object.__new__
                return self.object_new
            if attr == "__init__":
                return lambda *a, **k: None  # object.__init__
            raise Unsupported(f"class attribute {obj.name}.{attr}")
        if isinstance(obj, bytes) and attr in _SAFE_METHODS["bytes"]:
            return getattr(obj, attr)
        if isinstance(obj, _Deque) and attr in ("appendleft", "popleft", "extendleft", "rotate"):
            return getattr(obj, attr)
        if isinstance(obj, tuple) and hasattr(type(obj), "_lifted_class"):
            if attr in type(obj)._fields:
                return getattr(obj, attr)
            r = self.prog.lookup(type(obj)._lifted_class, attr)
            if isinstance(r, FuncInfo):
                decos = r.decorators()
                if "property" in decos:
                    return self.call_function(r, [], {}, self_obj=obj)
                if "staticmethod" in decos:
                    return Closure(r.node, Env(), r.module, self, cls=r.cls, name=f"{r.cls.name}.{attr}")
                return BoundMethod(self, r, obj)
            if attr == "_replace":
                return obj._replace
            if attr == "_asdict":
                return obj._asdict
            if attr == "_fields":
                return type(obj)._fields
        if isinstance(obj, (tuple, list, dict, str, set, frozenset)):
            tn = next((n for n in ("tuple", "list", "dict", "str", "set", "frozenset") if isinstance(obj, __builtins__[n] if isinstance(__builtins__, dict) else getattr(__builtins__, n))), type(obj).__name__)
            if attr in _SAFE_METHODS.get(tn, ()):
                return getattr(obj, attr)
        if isinstance(obj, type) and attr == "__name__":
            return "float" if obj is Fraction else obj.__name__
        if isinstance(obj, Fraction) and attr in ("real", "imag", "conjugate", "numerator", "denominator"):
            return getattr(obj, attr)
        if isinstance(obj, complex) and attr in ("real", "imag", "conjugate"):
            v = getattr(obj, attr)
            return _num(v) if not callable(v) else v
        if isinstance(obj, int) and attr in ("real", "imag", "conjugate"):
            return getattr(obj, attr)
        if isinstance(obj, Idx) and attr == "count":
            return obj.count
        if getattr(type(obj), "__lift_host__", False) and not attr.startswith("_"):
            return getattr(obj, attr)
        if obj is BUILTINS["dict"] and attr == "fromkeys":
            # keys keep first-seen order; equal keys collapse under the interpreter's notion of equality
            def fromkeys(it, value=None):
                out = self.new_dict() if hasattr(self, "new_dict") else {}
                for k in self.iterate(it, node):
                    k = _hashable(k)
                    if k not in out:
                        out[k] = value
                return out

            return fromkeys
        raise Unsupported(f"attribute {attr} on {type(obj).__name__} ({norm(node)})")

    def _class_body_value(self, k, attr, r):
        """value of a class-body assignment: evaluated once in the defining class's module and kept
        (a class-level dict / list is one shared object, e.g. the flyweight caches)"""
        ow = self.prog.lookup_with_owner(k, attr)
        owner = ow[0] if ow else k
        key = (owner.module.name, owner.name, attr)
        cache = self.__dict__.setdefault("_class_body_cache", {})
        if key not in cache:
            cache[key] = self.eval(r, Env(), owner.module)
        return cache[key]

    def ufl_type_attr(self, k, attr, obj=None):
        """class attributes attached by the @ufl_type decorator (from the type model)"""
        tm = self.type_model
        if attr == "_ufl_class_":
            # the decorated class itself; Coefficient etc. subclass user-side only
            return k
        if k.name not in tm.types:
            for kk in k.mro():
                if kk.name in tm.types:
                    k = kk
                    break
            else:
                return NotImplemented
        t = tm.get(k.name)
        if attr == "_ufl_typecode_":
            return k.name
        if attr == "_ufl_handler_name_":
            return t.handler
        if attr.startswith("_ufl_") and attr.endswith("_") and attr[5:-1] in t.traits:
            return t.traits[attr[5:-1]]
        if attr in ("ufl_shape", "ufl_free_indices", "ufl_index_dimensions") and obj is not None:
            # attach_implementations_of_indexing_interface (ufl_type.py), nearest decorated class first
            for kk in k.mro():
                if kk.name not in tm.types or kk.ufl_type_kwargs is None:
                    continue
                tt = tm.get(kk.name)
                which = tt.traits.get("inherit_shape_from_operand" if attr == "ufl_shape" else "inherit_indices_from_operand")
                if which is not None:
                    return self.getattr(obj.attrs["ufl_operands"][which], attr, None, None)
                if tt.traits.get("is_scalar") or (attr != "ufl_shape" and tt.traits.get("is_index_free")):
                    return ()
            return NotImplemented
        if attr == "_hash" and obj is not None and t.traits.get("is_expr"):
            return obj.attrs.setdefault("_hash", None)
        return NotImplemented

    def _dx(self, t, ii):
        raise Unsupported(".dx needs a rule-specific model")

    def e_Subscript(self, e, env, mod):
        obj = self.eval(e.value, env, mod)
        key = self.eval(e.slice, env, mod)
        return self.subscript(obj, key, e)

    def subscript(self, obj, key, node=None):
        hook = getattr(self, "subscript_hook", None)
        if hook is not None:
            r = hook(obj, key, node)
            if r is not NotImplemented:
                return r
        if isinstance(obj, T):
            if isinstance(key, list):
                key = tuple(key)
            try:
                return obj[key]
            except SemError as ex:
                raise LiftRaise(f"ill-formed indexing: {ex}", node)
        if isinstance(obj, (tuple, list, str, range)):
            if isinstance(key, Fraction) and key.denominator == 1:
                key = int(key)
            try:
                return obj[key]
            except IndexError:
                raise LiftRaise("IndexError", node)
            except TypeError:
                raise Unsupported(f"subscript {key!r} on {type(obj).__name__}")
        if isinstance(obj, dict) and getattr(type(obj), "__lift_host__", False):
            try:
                return obj[_hashable(key)]
            except KeyError:
                raise LiftRaise(f"KeyError: {key!r}", node)
        if isinstance(obj, dict):
            k = _hashable(key)
            if k not in obj:
                if hasattr(obj, "default_factory") and obj.default_factory is not None:
                    return obj[k]
                raise LiftRaise(f"KeyError: {k!r}", node)
            return obj[k]
        if isinstance(obj, Obj) and "__getitem__" in obj.attrs:
            return obj.attrs["__getitem__"](key)
        if self.obj_class(obj) is not None:
            m, _ = self.find_method(self.obj_class(obj), "__getitem__")
            if m is not None:
                return self.call_function(m, [key], {}, self_obj=obj)
        if getattr(type(obj), "__lift_host__", False) and hasattr(obj, "__getitem__"):
            return obj[_hashable(key) if isinstance(key, list) else key]
        raise Unsupported(f"subscript on {type(obj).__name__} ({norm(node) if node is not None else ''})")

    def e_Slice(self, e, env, mod):
        ev = lambda x: None if x is None else self.eval(x, env, mod)  # noqa: E731
        return slice(ev(e.lower), ev(e.upper), ev(e.step))

    def e_Tuple(self, e, env, mod):
        return tuple(self._elts(e.elts, env, mod))

    def e_List(self, e, env, mod):
        return list(self._elts(e.elts, env, mod))

    # ---- containers: plain Python ones, or value-semantics ones (sa/containers.py) ----------------
    def enable_value_containers(self, set_order="fifo"):
        from .containers import VDefaultDict, VDict, VSet

        self.value_containers = True
        self.set_order = set_order
        self.overrides["set"] = lambda x=(): VSet(self, _it(x), self.set_order)
        self.overrides["frozenset"] = lambda x=(): VSet(self, _it(x), self.set_order, frozen=True)
        self.overrides["dict"] = lambda *a, **k: VDict(self, list(dict(*a, **k).items()) if not (a and isinstance(a[0], VDict)) else a[0].items())
        self.overrides["defaultdict"] = lambda factory=None: VDefaultDict(self, factory)
        self._VDict, self._VSet = VDict, VSet
        od = Obj("OrderedDict", fromkeys=lambda keys, value=None: VDict(self, [(k, value) for k in _it(keys)]))
        od.attrs["__call__"] = lambda *a, **k: self.overrides["dict"](*a, **k)
        self.overrides["OrderedDict"] = od
        self.pytype_alias = {self.overrides["set"]: set, self.overrides["frozenset"]: (set, frozenset), self.overrides["dict"]: dict, self.overrides["defaultdict"]: dict}

    def new_dict(self):
        return self._VDict(self) if getattr(self, "value_containers", False) else {}

    def new_set(self, items):
        if getattr(self, "value_containers", False):
            return self._VSet(self, items, self.set_order)
        return set(_hashable(x) for x in items)

    def e_Set(self, e, env, mod):
        return self.new_set(self._elts(e.elts, env, mod))

    def e_Dict(self, e, env, mod):
        d = self.new_dict()
        for k, v in zip(e.keys, e.values):
            if k is None:
                d.update(self.eval(v, env, mod))
            else:
                d[_hashable(self.eval(k, env, mod))] = self.eval(v, env, mod)
        return d

    def _elts(self, elts, env, mod):
        out = []
        for x in elts:
            if isinstance(x, ast.Starred):
                out.extend(self.iterate(self.eval(x.value, env, mod), x))
            else:
                out.append(self.eval(x, env, mod))
        return out

    def e_Starred(self, e, env, mod):
        raise Unsupported("starred expression outside call/display")

    def py_sorted(self, x, key=None, reverse=False, node=None):
        """sorted() with the lifted comparison protocol (uses only <, stable)"""
        import functools

        items = self.iterate(x, node)
        if key is None:
            keys = items
        elif callable(key) and not isinstance(key, ClassInfo):
            keys = [key(i) for i in items]
        else:
            keys = [self.call(key, [i], {}, node, None) for i in items]
        if not any(_has_obj(k) for k in keys):
            try:
                order = sorted(range(len(items)), key=lambda j: keys[j], reverse=reverse)
                return [items[j] for j in order]
            except TypeError as ex:
                raise LiftRaise(f"TypeError: {ex}", node)

        def lt(a, b):
            return self.truth(self.compare(ast.Lt, a, b, node), node)

        def cmp(i, j):
            return -1 if lt(keys[i], keys[j]) else (1 if lt(keys[j], keys[i]) else 0)

        order = sorted(range(len(items)), key=functools.cmp_to_key(cmp), reverse=reverse)
        return [items[j] for j in order]

    def obj_binop(self, op, a, b, node=None):
        """Python's binary operator protocol for instances of repository classes"""
        fwd, rev = _DUNDER_BIN[op]
        ka, kb = self.obj_class(a), self.obj_class(b)
        order = [(a, fwd, b), (b, rev, a)]
        if ka is not None and kb is not None and kb is not ka and kb.is_subclass_of(ka.name) and self.find_method(kb, rev)[0] is not None:
            order.reverse()
        for x, name, y in order:
            k = self.obj_class(x)
            if k is None:
                continue
            m, _ = self.find_method(k, name)
            if m is None:
                continue
            r = self.call_function(m, [y], {}, self_obj=x)
            if r is not NotImplemented:
                return r
        ta = ka.name if ka is not None else type(a).__name__
        tb = kb.name if kb is not None else type(b).__name__
        raise LiftRaise(f"TypeError: unsupported operand type(s) for {fwd}: '{ta}' and '{tb}'", node)

    def e_BinOp(self, e, env, mod):
        return self.binop(type(e.op), self.eval(e.left, env, mod), self.eval(e.right, env, mod), e)

    def e_UnaryOp(self, e, env, mod):
        v = _num(self.eval(e.operand, env, mod))
        if isinstance(e.op, ast.Not):
            return not self.truth(v, e.operand)
        hook = getattr(self, "unop_hook", None)
        if hook is not None:
            r = hook(type(e.op), v, e)
            if r is not NotImplemented:
                return r
        if self.obj_class(v) is not None:
            name = {ast.USub: "__neg__", ast.UAdd: "__pos__", ast.Invert: "__invert__"}[type(e.op)]
            m, _ = self.find_method(self.obj_class(v), name)
            if m is None:
                raise LiftRaise(f"TypeError: bad operand type for unary {name}: '{self.obj_class(v).name}'", e)
            return self.call_function(m, [], {}, self_obj=v)
        if isinstance(e.op, ast.USub):
            return -v
        if isinstance(e.op, ast.UAdd):
            return v
        raise Unsupported("unary operator")

    def e_BoolOp(self, e, env, mod):
        if isinstance(e.op, ast.And):
            v = True
            for x in e.values:
                v = self.eval(x, env, mod)
                if not self.truth(v, x):
                    return v
            return v
        v = False
        for x in e.values:
            v = self.eval(x, env, mod)
            if self.truth(v, x):
                return v
        return v

    def e_Compare(self, e, env, mod):
        left = self.eval(e.left, env, mod)
        for op, rhs in zip(e.ops, e.comparators):
            right = self.eval(rhs, env, mod)
            r = self.compare(type(op), left, right, e)
            if not isinstance(r, bool):
                if len(e.ops) == 1:
                    return r
                raise Unsupported("chained comparison on symbolic values")
            if not r:
                return False
            left = right
        return True

    def _make_set(self, items, kind):
        items = list(items)
        if not any(self.obj_class(x) is not None for x in items):
            return kind(_hashable(x) for x in items)
        reps = []
        for x in items:
            if not self.is_hashable_obj(x):
                raise LiftRaise(f"TypeError: unhashable type: '{self.obj_class(x).name}'")
            if not any(r is x or self.obj_eq(r, x) for r in reps):
                reps.append(x)
        return kind(reps)

    # ---- object model: instances of repository classes are Obj(__class__=ClassInfo) ----------
    def obj_class(self, x):
        if isinstance(x, Obj):
            k = x.attrs.get("__class__")
            if isinstance(k, ClassInfo):
                return k
        return None

    def find_method(self, cls, name):
        """(FuncInfo | None, synthesized_by_total_ordering: bool)"""
        r = self.prog.lookup(cls, name)
        if isinstance(r, FuncInfo):
            return r, False
        if name in ("__gt__", "__le__", "__ge__", "__lt__"):
            for k in cls.mro():
                if any(norm(d).split(".")[-1] == "total_ordering" for d in k.node.decorator_list):
                    return None, True
        return None, False

    def object_new(self, cls, *a, **k):
        if isinstance(cls, ModelledClass):
            cls = cls.info
        o = Obj(cls.name, __class__=cls)
        if getattr(self, "on_instantiate", None) is not None:
            self.on_instantiate(o, cls)
        return o

    def instantiate(self, cls, args, kwargs):
        new = self.prog.lookup(cls, "__new__") if getattr(self, "honor_new", False) else None
        if isinstance(new, FuncInfo):
            o = self.call_function(new, [cls] + list(args), dict(kwargs))
            k = o.attrs.get("__class__") if isinstance(o, Obj) else None
            if not (isinstance(k, ClassInfo) and k.is_subclass_of(cls.name)):
                return o  # __new__ returned something else: __init__ is not called
        else:
            o = self.object_new(cls)
        init = self.prog.lookup(cls, "__init__")
        if isinstance(init, FuncInfo):
            self.call_function(init, list(args), dict(kwargs), self_obj=o)
        elif self.is_dataclass(cls):
            for name, value in self.bind_fields(cls, args, kwargs):
                o.attrs[name] = value
            post = self.prog.lookup(cls, "__post_init__")
            if isinstance(post, FuncInfo):
                self.call_function(post, [], {}, self_obj=o)
        elif args or kwargs:
            raise Unsupported(f"{cls.name}() takes no arguments")
        o.attrs["__initialised_from_source__"] = True
        return o

    # ---- record classes: NamedTuple / dataclass / stand-alone helper classes of the package ----------------------
    _PLAIN_BASES = ("object", "NamedTuple", "typing.NamedTuple", "Generic")

    @staticmethod
    def is_dataclass(cls):
        return any(norm(d.func if isinstance(d, ast.Call) else d).split(".")[-1] == "dataclass" for k in cls.mro() for d in k.node.decorator_list)

    def record_kind(self, cls):
        """'namedtuple' | 'dataclass' | 'plain' for a helper class that carries no UFL meaning of its own (no
        repository base class, no repository subclass, not a registered UFL type, bases only object / NamedTuple):
        such a class is interpreted from its source like any function.  None for everything else."""
        cache = self.__dict__.setdefault("_record_kinds", {})
        if id(cls) not in cache:
            kind = None
            ext = [b.split("[")[0] for b in cls.bases if isinstance(b, str)]
            if not any(isinstance(b, ClassInfo) for b in cls.bases) and cls.ufl_type_kwargs is None and all(b in self._PLAIN_BASES for b in ext) and not getattr(cls.module, "path", "").startswith("<"):
                subclassed = self.__dict__.get("_subclassed")
                if subclassed is None:
                    subclassed = self._subclassed = {id(b) for c in self.prog.all_classes() for b in c.bases if isinstance(b, ClassInfo)}
                if id(cls) not in subclassed:
                    if any(b.endswith("NamedTuple") for b in ext):
                        kind = "namedtuple"
                    elif self.is_dataclass(cls):
                        kind = "dataclass"
                    elif "__init__" in cls.methods:
                        kind = "plain"
            cache[id(cls)] = kind
        return cache[id(cls)]

    def record_fields(self, cls):
        """[(name, default expression | None)] of the annotated class-body fields, bases first"""
        out = {}
        for k in reversed(cls.mro()):
            for st in k.node.body:
                if isinstance(st, ast.AnnAssign) and isinstance(st.target, ast.Name) and "ClassVar" not in norm(st.annotation):
                    out[st.target.id] = (st.value, k)
        return [(n, v, k) for n, (v, k) in out.items()]

    def bind_fields(self, cls, args, kwargs):
        fields = self.record_fields(cls)
        if len(args) > len(fields):
            raise LiftRaise(f"TypeError: {cls.name}() takes {len(fields)} positional arguments but {len(args)} were given")
        kwargs = dict(kwargs)
        out = []
        for i, (name, default, owner) in enumerate(fields):
            if i < len(args):
                if name in kwargs:
                    raise LiftRaise(f"TypeError: {cls.name}() got multiple values for argument '{name}'")
                out.append((name, args[i]))
            elif name in kwargs:
                out.append((name, kwargs.pop(name)))
            elif default is not None:
                if isinstance(default, ast.Call) and norm(default.func).split(".")[-1] == "field":
                    kw = {k.arg: k.value for k in default.keywords}
                    if "default_factory" in kw:
                        out.append((name, self.call(self.eval(kw["default_factory"], Env(), owner.module), [], {}, default, owner.module)))
                    elif "default" in kw:
                        out.append((name, self.eval(kw["default"], Env(), owner.module)))
                    else:
                        raise LiftRaise(f"TypeError: {cls.name}() missing required argument '{name}'")
                else:
                    out.append((name, self.eval(default, Env(), owner.module)))
            else:
                raise LiftRaise(f"TypeError: {cls.name}() missing required argument '{name}'")
        if kwargs:
            raise LiftRaise(f"TypeError: {cls.name}() got an unexpected keyword argument '{next(iter(kwargs))}'")
        return out

    def make_namedtuple(self, cls, args, kwargs, node=None):
        types = self.__dict__.setdefault("_nt_types", {})
        if id(cls) not in types:
            import collections

            t = collections.namedtuple(cls.name, [n for n, _, _ in self.record_fields(cls)], rename=True)
            t._lifted_class = cls
            types[id(cls)] = t
        return types[id(cls)](*[v for _, v in self.bind_fields(cls, args, kwargs)])

    def is_hashable_obj(self, x):
        k = self.obj_class(x)
        if k is None:
            return True
        tm = getattr(self, "type_model", None)
        for c in k.mro():
            if tm is not None and c.name in tm.types and c.ufl_type_kwargs is not None and not c.ufl_type_kwargs.get("_root") and tm.get(c.name).traits.get("use_default_hash", True):
                return True  # @ufl_type attaches compute_expr_hash as __hash__
            if "__hash__" in c.methods:
                return True
            if "__hash__" in c.assigns:
                return norm(c.assigns["__hash__"]) != "None"
            if "__eq__" in c.methods:
                return False  # defining __eq__ without __hash__ makes instances unhashable
        return True

    def obj_eq(self, a, b, node=None):
        ka, kb = self.obj_class(a), self.obj_class(b)
        if ka is None and kb is None:
            return self.compare(ast.Eq, a, b, node)
        r = self.rich(ast.Eq, a, b, node)
        return self.truth(r, node)

    _REFLECT = {ast.Lt: "__gt__", ast.Gt: "__lt__", ast.LtE: "__ge__", ast.GtE: "__le__", ast.Eq: "__eq__", ast.NotEq: "__ne__"}
    _DUNDER = {ast.Lt: "__lt__", ast.Gt: "__gt__", ast.LtE: "__le__", ast.GtE: "__ge__", ast.Eq: "__eq__", ast.NotEq: "__ne__"}

    def _call_cmp(self, x, name, y, node):
        if isinstance(x, Obj) and name in x.attrs:
            return x.attrs[name](y)  # supplied by the rule for an abstract (user-side) object
        k = self.obj_class(x)
        if k is None:
            return NotImplemented
        m, synth = self.find_method(k, name)
        if m is not None:
            r = self.call_function(m, [y], {}, self_obj=x)
            return r
        if synth:
            lt, _ = self.find_method(k, "__lt__")
            if lt is None:
                return NotImplemented
            less = self.call_function(lt, [y], {}, self_obj=x)
            if less is NotImplemented:
                return NotImplemented
            less = self.truth(less, node)
            if name == "__gt__":
                return (not less) and not self.obj_eq(x, y, node)
            if name == "__le__":
                return less or self.obj_eq(x, y, node)
            if name == "__ge__":
                return not less
        if name == "__eq__" and self.is_dataclass(k) and not any(kw.arg == "eq" and norm(kw.value) == "False" for d in k.node.decorator_list if isinstance(d, ast.Call) for kw in d.keywords):
            if self.obj_class(y) is not k:
                return NotImplemented
            return all(self.obj_eq(x.attrs.get(n), y.attrs.get(n), node) for n, _, _ in self.record_fields(k))
        if name == "__eq__":
            return x is y
        if name == "__ne__":
            r = self._call_cmp(x, "__eq__", y, node)
            return NotImplemented if r is NotImplemented else (not self.truth(r, node))
        return NotImplemented

    def rich(self, op, a, b, node):
        """Python's rich comparison protocol for Obj instances (reflected operand of a proper
        subclass instance is tried first)."""
        ka, kb = self.obj_class(a), self.obj_class(b)
        first = [(a, self._DUNDER[op], b), (b, self._REFLECT[op], a)]
        if ka is not None and kb is not None and kb is not ka and kb.is_subclass_of(ka.name):
            first.reverse()
        for x, name, y in first:
            r = self._call_cmp(x, name, y, node)
            if r is not NotImplemented:
                return r
        if op is ast.Eq:
            return a is b
        if op is ast.NotEq:
            return a is not b
        raise LiftRaise(f"TypeError: '{self._DUNDER[op]}' not supported between instances", node)

    def contains(self, item, container, node):
        if getattr(type(container), "__lift_host__", False) and isinstance(container, (set, dict)):
            return item in container
        if isinstance(container, (set, frozenset, dict)):
            if not self.is_hashable_obj(item):
                raise LiftRaise(f"TypeError: unhashable type: '{self.obj_class(item).name}'", node)
            if self.obj_class(item) is None and not any(self.obj_class(x) is not None for x in container):
                return _hashable(item) in container
            return any(x is item or self.obj_eq(x, item, node) for x in container)
        if isinstance(container, (list, tuple)):
            if self.obj_class(item) is None and not any(self.obj_class(x) is not None for x in container):
                return item in container
            return any(x is item or self.obj_eq(item, x, node) for x in container)
        k = self.obj_class(container)
        if k is not None:
            m, _ = self.find_method(k, "__contains__")
            if m is not None:
                return self.truth(self.call_function(m, [item], {}, self_obj=container), node)
        return item in container

    def compare(self, op, a, b, node):
        a, b = _num(a), _num(b)
        if op in self._DUNDER and (self.obj_class(a) is not None or self.obj_class(b) is not None):
            return self.rich(op, a, b, node)
        if op in self._DUNDER and isinstance(a, Obj) and self._DUNDER[op] in a.attrs:
            return a.attrs[self._DUNDER[op]](b)  # an abstract (user-side) object with comparison methods supplied by the rule
        if op in (ast.In, ast.NotIn) and (self.obj_class(a) is not None or self.obj_class(b) is not None or (isinstance(b, (list, tuple, set, frozenset)) and any(self.obj_class(x) is not None for x in b))):
            r = self.contains(a, b, node)
            return r if op is ast.In else not r
        if isinstance(a, (T, sym.Ex)) or isinstance(b, (T, sym.Ex)):
            if op in (ast.Is, ast.IsNot):
                return (a is b) == (op is ast.Is)
            if op in (ast.Eq, ast.NotEq) and isinstance(a, T) and isinstance(b, T):
                # structural comparison of UFL values: decidable only when identical objects
                if a is b:
                    return op is ast.Eq
            if op in (ast.In, ast.NotIn) and isinstance(b, (tuple, list, set, frozenset, dict)):
                return any(x is a for x in b) == (op is ast.In)
            raise Unsupported(f"comparison on symbolic values: {norm(node)}")
        if op in (ast.Eq, ast.NotEq) and isinstance(a, (tuple, list)) and isinstance(b, (tuple, list)) and type(a) is type(b) and (_has_obj(a) or _has_obj(b)):
            # sequences compare element-wise with the elements' own (lifted) __eq__
            same = len(a) == len(b) and all(x is y or self.truth(self.compare(ast.Eq, x, y, node), node) for x, y in zip(a, b))
            return same if op is ast.Eq else not same
        if op in (ast.Lt, ast.LtE, ast.Gt, ast.GtE) and isinstance(a, (tuple, list)) and type(a) is type(b) and (_has_obj(a) or _has_obj(b)):
            # lexicographic order with the elements' own comparisons
            for x, y in zip(a, b):
                if x is y or self.truth(self.compare(ast.Eq, x, y, node), node):
                    continue
                return self.truth(self.compare(op if op in (ast.Lt, ast.Gt) else (ast.Lt if op is ast.LtE else ast.Gt), x, y, node), node)
            return _CMPOPS[op](len(a), len(b))
        if isinstance(a, list) and isinstance(b, tuple) and op in (ast.Eq, ast.NotEq):
            return (op is ast.NotEq)
        try:
            return _CMPOPS[op](a, b)
        except TypeError as ex:
            if _plain(a) and _plain(b):
                # concrete Python values: the comparison raises at run time as well
                raise LiftRaise(f"TypeError: {ex}", node)
            raise Unsupported(f"comparison {norm(node)}: {ex}")

    def e_IfExp(self, e, env, mod):
        c = self.truth(self.eval(e.test, env, mod), e.test)
        return self.eval(e.body if c else e.orelse, env, mod)

    def e_Lambda(self, e, env, mod):
        return Closure(e, env, mod, self)

    def e_JoinedStr(self, e, env, mod):
        if not getattr(self, "fstrings", False):
            return "<fstring>"
        out = []
        for part in e.values:
            if isinstance(part, ast.Constant):
                out.append(str(part.value))
                continue
            v = self.eval(part.value, env, mod)
            if part.conversion == ord("r"):
                txt = self.py_repr(v, part)
            elif part.conversion == ord("s") or part.format_spec is None:
                txt = self.py_str(v, part)
            else:
                spec = self.e_JoinedStr(part.format_spec, env, mod)
                if isinstance(v, (Obj, T, sym.Ex)):
                    raise Unsupported(f"format spec on abstract value ({norm(part)})")
                txt = format(float(v) if isinstance(v, Fraction) else v, spec)
            out.append(txt)
        return "".join(out)

    # ---- repr / str with the object model (lifted __repr__ / __str__ of repository classes) ----
    def py_repr(self, v, node=None):
        if isinstance(v, Obj):
            if "__repr__" in v.attrs:
                r = v.attrs["__repr__"]
                return r() if callable(r) else r
            k = self.obj_class(v)
            if k is not None:
                m, _ = self.find_method(k, "__repr__")
                if m is not None:
                    return self.call_function(m, [], {}, self_obj=v)
                return f"<{k.name} object>"
            raise Unsupported(f"repr() of abstract object {v.kind}")
        if isinstance(v, (T, sym.Ex)):
            raise Unsupported("repr() of a symbolic value")
        if isinstance(v, bool) or v is None or isinstance(v, (int, str, complex)):
            return repr(v)
        if isinstance(v, Fraction):
            return repr(float(v))
        if isinstance(v, float):
            return repr(v)
        if isinstance(v, tuple):
            if len(v) == 1:
                return "(" + self.py_repr(v[0], node) + ",)"
            return "(" + ", ".join(self.py_repr(x, node) for x in v) + ")"
        if isinstance(v, list):
            return "[" + ", ".join(self.py_repr(x, node) for x in v) + "]"
        if isinstance(v, dict):
            return "{" + ", ".join(f"{self.py_repr(a, node)}: {self.py_repr(b, node)}" for a, b in v.items()) + "}"
        if isinstance(v, (set, frozenset)):
            raise Unsupported("repr() of a set (iteration order)")
        if isinstance(v, bytes):
            return repr(v)
        if isinstance(v, ClassInfo):
            return f"<class '{v.module.name}.{v.name}'>"
        if getattr(type(v), "__lift_host__", False):
            return repr(v)
        raise Unsupported(f"repr() of {type(v).__name__}")

    def py_str(self, v, node=None):
        if isinstance(v, str):
            return v
        if isinstance(v, Obj):
            if "__str__" in v.attrs:
                r = v.attrs["__str__"]
                return r() if callable(r) else r
            k = self.obj_class(v)
            if k is not None:
                m, _ = self.find_method(k, "__str__")
                if m is not None:
                    return self.call_function(m, [], {}, self_obj=v)
        return self.py_repr(v, node)

    def e_NamedExpr(self, e, env, mod):
        v = self.eval(e.value, env, mod)
        env.set(e.target.id, v)
        return v

    def _comp(self, gens, env, mod, emit, first=None):
        def rec(k, env):
            if k == len(gens):
                emit(env)
                return
            g = gens[k]
            for x in first if k == 0 and first is not None else self.iterate(self.eval(g.iter, env, mod), g.iter):
                e2 = Env(env)
                self.assign(g.target, x, e2, mod)
                if all(self.truth(self.eval(c, e2, mod), c) for c in g.ifs):
                    rec(k + 1, e2)

        rec(0, env)

    def e_ListComp(self, e, env, mod):
        out = []
        self._comp(e.generators, env, mod, lambda en: out.append(self.eval(e.elt, en, mod)))
        return out

    def e_GeneratorExp(self, e, env, mod):
        first = self.iterate(self.eval(e.generators[0].iter, env, mod), e.generators[0].iter)

        def thunk():
            out = []
            self._comp(e.generators, env, mod, lambda en: out.append(self.eval(e.elt, en, mod)), first=first)
            return out

        return GenExp(thunk)

    def e_SetComp(self, e, env, mod):
        return self.new_set(self.e_ListComp(e, env, mod))

    def e_DictComp(self, e, env, mod):
        out = self.new_dict()
        self._comp(e.generators, env, mod, lambda en: out.__setitem__(_hashable(self.eval(e.key, en, mod)), self.eval(e.value, en, mod)))
        return out

    def e_Call(self, e, env, mod):
        # method calls on abstract values first
        args = self._elts(e.args, env, mod)
        kwargs = {}
        for k in e.keywords:
            if k.arg is None:
                kwargs.update(self.eval(k.value, env, mod))
            else:
                kwargs[k.arg] = self.eval(k.value, env, mod)
        if isinstance(e.func, ast.Name) and e.func.id == "super" and not args:
            found, ctxv = env.lookup("__super_ctx__")
            if not found:
                raise Unsupported("super() outside a method")
            return Obj("super", _cls=ctxv[0], _self=ctxv[1])
        if isinstance(e.func, ast.Attribute):
            recv = self.eval(e.func.value, env, mod)
            if self.method_hook is not None:
                r = self.method_hook(recv, e.func.attr, args, kwargs, e)
                if r is not NotImplemented:
                    return r
            f = self.getattr(recv, e.func.attr, e.func, mod)
        else:
            f = self.eval(e.func, env, mod)
        return self.call(f, args, kwargs, e, mod)

    def isinstance_model(self, x, cls, node=None):
        if isinstance(cls, (tuple, list)):
            return any(self.isinstance_model(x, c, node) for c in cls)
        if isinstance(cls, ModelledClass):
            cls = cls.info
        if self.isinstance_hook is not None:
            r = self.isinstance_hook(x, cls)
            if r is not NotImplemented:
                return r
        if isinstance(cls, _NumTower):
            return cls.check(x)
        if isinstance(cls, type):
            return isinstance(x, cls)  # host model classes (e.g. the ndarray model)
        alias = getattr(self, "pytype_alias", None)
        if alias and not isinstance(cls, (ClassInfo, Obj)) and callable(cls) and cls in alias:
            return isinstance(x, alias[cls])
        if cls in _PYTYPES:
            pt = _PYTYPES[cls]
            if pt is float:
                return isinstance(x, Fraction) and not isinstance(x, bool)
            if pt is int:
                return isinstance(x, int)
            return isinstance(x, pt)
        if isinstance(cls, ClassInfo):
            if isinstance(x, T):
                if cls.name == "Zero":
                    return x.is_zero_literal
                if cls.name in ("Expr",):
                    return True
                kind = x.tags.get("ufl_class")
                if kind is not None:
                    return self.prog.get_class(kind).is_subclass_of(cls.name)
                raise Unsupported(f"isinstance(<ufl value>, {cls.name}) is not decidable in the lifted domain")
            if isinstance(x, Obj):
                k = x.attrs.get("__class__")
                if isinstance(k, ClassInfo):
                    return k.is_subclass_of(cls.name)
                if x.attrs.get("__class__", 0) is None or "__class__" not in x.attrs:
                    # abstract object without a modelled class: an instance of none of the repo classes
                    if x.kind in ("element", "domain", "label", "exception"):
                        return False
                raise Unsupported(f"isinstance({x.kind}, {cls.name})")
            if isinstance(x, Idx):
                return cls.name == "Index"
            return False
        raise Unsupported(f"isinstance(.., {cls!r})")

    def call(self, f, args, kwargs, node, mod):
        if f is _b_isinstance:
            return self.isinstance_model(args[0], args[1], node)
        if f is _b_getattr and len(args) in (2, 3) and isinstance(args[1], str):
            try:
                return self.getattr(args[0], args[1], node, mod)
            except LiftRaise as ex:
                if len(args) == 3 and "AttributeError" in ex.what:
                    return args[2]
                raise
        if f is BUILTINS["hasattr"] and len(args) == 2 and self.obj_class(args[0]) is not None:
            o, nm = args
            if nm in o.attrs:
                return True
            k = self.obj_class(o)
            if self.prog.lookup(k, nm) is not None:
                return True
            if any((kk.module.name, kk.name, nm) in self.class_attrs for kk in k.mro()):
                return True
            if getattr(self, "type_model", None) is not None and self.ufl_type_attr(k, nm, o) is not NotImplemented:
                return True
            return False
        if f is BUILTINS["sum"] and args and (any(self.obj_class(x) is not None for x in args[1:]) or any(self.obj_class(x) is not None for x in self.iterate(args[0], node))):
            acc = args[1] if len(args) > 1 else kwargs.get("start", 0)
            for x in self.iterate(args[0], node):
                acc = self.binop(ast.Add, acc, x, node)
            return acc
        if f in (BUILTINS["min"], BUILTINS["max"]) and args:
            items = list(self.iterate(args[0], node)) if len(args) == 1 else list(args)
            keyf = kwargs.get("key")
            keys = [x if keyf is None else self.call(keyf, [x], {}, node, mod) for x in items]
            if any(self.obj_class(k) is not None for k in keys):
                # instances of repository classes: ordered by their own (lifted) comparison methods
                if not items:
                    if "default" in kwargs:
                        return kwargs["default"]
                    raise LiftRaise("ValueError: min() / max() of an empty sequence", node)
                op = ast.Lt if f is BUILTINS["min"] else ast.Gt
                best = 0
                for k in range(1, len(items)):
                    if self.truth(self.rich(op, keys[k], keys[best], node), node):
                        best = k
                return items[best]
        if f is BUILTINS["sorted"] and args:
            return self.py_sorted(args[0], kwargs.get("key"), kwargs.get("reverse", False), node)
        if isinstance(f, _OpFn):
            if f.unary:
                hook = getattr(self, "unop_hook", None)
                r = hook(f.op, args[0], node) if hook is not None else NotImplemented
                return r if r is not NotImplemented else self.binop(ast.Sub, 0, args[0], node)
            return self.binop(f.op, args[0], args[1], node)
        if f is _REDUCE and len(args) >= 2:
            items = list(self.iterate(args[1], node))
            if len(args) > 2:
                acc = args[2]
            elif items:
                acc = items.pop(0)
            else:
                raise LiftRaise("TypeError: reduce() of empty iterable with no initial value", node)
            for x in items:
                acc = self.call(args[0], [acc, x], {}, node, mod)
            return acc
        if f is _ACCUMULATE and args:
            fn = kwargs.get("func") if "func" in kwargs else (args[1] if len(args) > 1 else None)
            out = []
            items = list(self.iterate(args[0], node))
            if kwargs.get("initial") is not None:
                items.insert(0, kwargs["initial"])
            for x in items:
                out.append(x if not out else (self.binop(ast.Add, out[-1], x, node) if fn is None else self.call(fn, [out[-1], x], {}, node, mod)))
            return out
        if f is _GROUPBY and args:
            # itertools.groupby: runs of *consecutive* items with equal keys, in order (eager)
            keyf = kwargs.get("key") if "key" in kwargs else (args[1] if len(args) > 1 else None)
            out = []
            for x in self.iterate(args[0], node):
                kx = x if keyf is None else self.call(keyf, [x], {}, node, mod)
                if out and self.truth(self.compare(ast.Eq, out[-1][0], kx, node), node):
                    out[-1][1].append(x)
                else:
                    out.append((kx, [x]))
            return out
        if f in (BUILTINS["all"], BUILTINS["any"]) and len(args) == 1:
            # truth of abstract values goes through the interpreter (__bool__ of repository classes, Zero, ...)
            items = self.iterate(args[0], node) if self.obj_class(args[0]) is not None else list(args[0])
            if f is BUILTINS["all"]:
                return all(self.truth(x, node) for x in items)
            return any(self.truth(x, node) for x in items)
        if f is _b_len and len(args) == 1 and self.obj_class(args[0]) is not None and "__len__" not in args[0].attrs:
            m, _ = self.find_method(self.obj_class(args[0]), "__len__")
            if m is not None:
                return self.call_function(m, [], {}, self_obj=args[0])
            raise LiftRaise(f"TypeError: object of type '{self.obj_class(args[0]).name}' has no len()", node)
        if len(args) == 1 and not kwargs and self.obj_class(args[0]) is not None:
            dunder = {id(BUILTINS["int"]): "__int__", id(BUILTINS["float"]): "__float__", id(BUILTINS["abs"]): "__abs__", id(BUILTINS["bool"]): "__bool__", id(BUILTINS["complex"]): "__complex__"}.get(id(f))
            if dunder is not None:
                m, _ = self.find_method(self.obj_class(args[0]), dunder)
                if m is not None:
                    return self.call_function(m, [], {}, self_obj=args[0])
                if dunder == "__bool__":
                    return self.truth(args[0], node)
                raise LiftRaise(f"TypeError: {dunder[2:-2]}() argument must be a number, not '{self.obj_class(args[0]).name}'", node)
        if f in (BUILTINS["list"], BUILTINS["tuple"]) and len(args) == 1 and self.obj_class(args[0]) is not None:
            r = self.iterate(args[0], node)
            return r if f is BUILTINS["list"] else tuple(r)
        if callable(f) and not isinstance(f, (Closure, BoundMethod, Obj)) and any(self.obj_class(a) is not None for a in args) and f in _ITER_BUILTINS:
            # builtins consuming iterables: instances of repository classes iterate through their lifted __iter__
            args = [self.iterate(a, node) if self.obj_class(a) is not None and self.find_method(self.obj_class(a), "__iter__")[0] is not None else a for a in args]
        if isinstance(f, Closure):
            return self.call_closure(f, args, kwargs)
        if isinstance(f, BoundMethod):
            return f(*args, **kwargs)
        if isinstance(f, Obj) and f.kind == "exception_class":
            return Obj("exception", name=f.attrs["name"], args=tuple(args))
        if isinstance(f, Obj) and "__call__" in f.attrs:
            return self.call(f.attrs["__call__"], args, kwargs, node, mod)
        if isinstance(f, T) and getattr(self, "call_value", None) is not None:
            return self.call_value(f, args, kwargs)
        if isinstance(f, ModelledClass):
            return self.call(f.model, args, kwargs, node, mod)
        if isinstance(f, ClassInfo):
            if f.name in self.class_models:
                return self.call(self.class_models[f.name], args, kwargs, node, mod)
            kind = self.record_kind(f)
            if kind == "namedtuple":
                return self.make_namedtuple(f, args, kwargs, node)
            if f.name in self.instantiable or "*" in self.instantiable or kind is not None:
                return self.instantiate(f, args, kwargs)
            raise Unsupported(f"constructor {f.name}(...) has no semantic model ({norm(node)[:80]})")
        if isinstance(f, FuncInfo):
            return self.call_function(f, args, kwargs)
        if callable(f):
            try:
                return f(*args, **kwargs)
            except SemError as ex:
                raise LiftRaise(f"ill-formed UFL operation: {ex}", node)
            except (LiftRaise, Unsupported, _Return):
                raise
            except TypeError as ex:
                raise Unsupported(f"call {norm(node)[:80]}: {ex}")
        raise Unsupported(f"call of {f!r} ({norm(node)[:80]})")


def _load(t):
    t2 = ast.parse(norm(t), mode="eval").body
    return t2


def _hashable(k):
    if isinstance(k, list):
        return tuple(_hashable(x) for x in k)
    if isinstance(k, Fraction) and k.denominator == 1:
        return int(k)
    return k


_SAFE_METHODS = {
    "tuple": ("index", "count", "__getitem__", "__contains__", "__len__"),
    "list": ("index", "count", "append", "extend", "insert", "pop", "copy", "reverse", "sort", "__getitem__", "__contains__", "__len__", "clear", "remove"),
    "dict": ("get", "items", "keys", "values", "copy", "update", "setdefault", "pop", "__getitem__", "__contains__", "__len__", "popitem", "clear"),
    "str": ("join", "format", "startswith", "endswith", "split", "lower", "upper", "strip", "encode", "replace", "rstrip", "lstrip", "isdigit"),
    "bytes": ("hex", "decode"),
    "set": ("add", "union", "copy", "update", "discard", "remove", "isdisjoint", "issubset", "issuperset", "intersection", "difference", "__contains__", "__len__"),
    "frozenset": ("union", "isdisjoint", "issubset", "issuperset", "intersection", "difference", "__contains__", "__len__"),
}


class TypeUnion(tuple):
    pass


def _b_isinstance(x, cls):
    raise Unsupported("isinstance is handled by Interp.call")


def _b_issubclass(a, b):
    if isinstance(a, ModelledClass):
        a = a.info
    if isinstance(b, (tuple, list)):
        return any(_b_issubclass(a, x) for x in b)
    if isinstance(b, ModelledClass):
        b = b.info
    if isinstance(a, ClassInfo) and isinstance(b, ClassInfo):
        return a is b or a.is_subclass_of(b.name)
    if isinstance(a, type) and isinstance(b, type):
        return issubclass(a, b)
    if isinstance(a, ClassInfo) or isinstance(b, ClassInfo):
        return False
    raise Unsupported(f"issubclass({a!r}, {b!r})")


def _b_sum(seq, start=0):
    acc = start
    for x in _it(seq):
        acc = acc + x if not (isinstance(acc, int) and acc == 0 and isinstance(x, T)) else x
    return acc


def _b_len(x):
    if isinstance(x, Obj):
        if "__len__" in x.attrs:
            return x.attrs["__len__"]
        raise Unsupported(f"len() of {x.kind}")
    return len(x)


def _has_obj(x):
    if isinstance(x, Obj):
        return True
    if isinstance(x, (tuple, list)):
        return any(_has_obj(y) for y in x)
    return False


def _plain(x):
    if x is None or isinstance(x, (bool, int, float, Fraction, str, complex)):
        return True
    if isinstance(x, (tuple, list)):
        return all(_plain(y) for y in x)
    return False


def _const_of(x):
    """Expr.__float__/__int__: only literals convert; everything else raises TypeError"""
    if isinstance(x, T):
        if x.shape == () and not x.fi:
            e = x.get()
            if e.op == "c":
                return e.args[0]
        raise LiftRaise("TypeError: UFL expression is not a constant scalar")
    if isinstance(x, sym.Ex):
        if x.op == "c":
            return x.args[0]
        raise LiftRaise("TypeError: symbolic value is not a constant")
    return x


def _b_float(x=0):
    x = _const_of(x)
    return Fraction(x) if not isinstance(x, str) else Fraction(x)


def _b_int(x=0):
    return int(_const_of(x))


def _b_abs(x):
    if isinstance(x, T):
        return uflsem.t_fn("abs", x)
    return abs(x)


def _b_max(*a, **kw):
    if len(a) == 1:
        a = tuple(a[0])
    if any(isinstance(x, (T, sym.Ex)) for x in a):
        raise Unsupported("max() of symbolic values")
    if not a and "default" not in kw:
        raise LiftRaise("ValueError: max() iterable argument is empty")
    return max(a, **kw)


def _b_min(*a, **kw):
    if len(a) == 1:
        a = tuple(a[0])
    if any(isinstance(x, (T, sym.Ex)) for x in a):
        raise Unsupported("min() of symbolic values")
    if not a and "default" not in kw:
        raise LiftRaise("ValueError: min() iterable argument is empty")
    return min(a, **kw)


def _b_getattr(*a):  # interpreted in Interp.call (attribute lookup of the lifted object model)
    raise Unsupported("getattr outside the interpreter")


def _b_next(it, *default):
    if isinstance(it, (list, tuple)):
        raise LiftRaise(f"TypeError: '{type(it).__name__}' object is not an iterator")
    try:
        return next(it)
    except StopIteration:
        pass
    if default:
        return default[0]
    raise LiftRaise("StopIteration")


def _b_sorted(x, key=None, reverse=False):
    return sorted(_it(x), key=key, reverse=reverse)


def _it(x):
    if isinstance(x, Obj):
        if "__iter__" in x.attrs:
            return list(x.attrs["__iter__"])
        raise Unsupported(f"iteration over {x.kind}")
    return list(x)


BUILTINS = {
    "len": _b_len,
    "range": range,
    "enumerate": lambda x, start=0: list(enumerate(_it(x), start)),
    "zip": lambda *a, strict=False: list(zip(*[_it(x) for x in a])),
    "list": lambda x=(): _it(x),
    "tuple": lambda x=(): tuple(_it(x)),
    "dict": lambda *a, **k: dict(*a, **k),
    "set": lambda x=(): set(x),
    "frozenset": lambda x=(): frozenset(x),
    "sum": _b_sum,
    "abs": _b_abs,
    "min": _b_min,
    "max": _b_max,
    "int": _b_int,
    "float": _b_float,
    "bool": lambda x: bool(x),
    "str": lambda x="": str(x),
    "repr": lambda x: repr(x),
    "sorted": _b_sorted,
    "reversed": lambda x: list(reversed(_it(x))),
    "any": lambda x: any(_it(x)),
    "all": lambda x: all(_it(x)),
    "map": lambda f, *a: [f(*xs) for xs in zip(*[_it(x) for x in a])],
    "filter": lambda f, a: [x for x in _it(a) if (f(x) if f else x)],
    "isinstance": _b_isinstance,
    "issubclass": _b_issubclass,
    "slice": slice,
    "Ellipsis": Ellipsis,
    "True": True,
    "False": False,
    "None": None,
    **{n: Obj("exception_class", name=n) for n in ("ValueError", "NotImplementedError", "TypeError", "IndexError", "KeyError", "RuntimeError", "AssertionError", "ZeroDivisionError", "Exception", "AttributeError", "StopIteration")},
    "NotImplemented": NotImplemented,
    "print": lambda *a, **k: None,
    "next": _b_next,
    "iter": iter,
    "callable": callable,
    "hasattr": lambda o, n: (n in o.attrs) if isinstance(o, Obj) else False,
    "getattr": _b_getattr,
    "id": id,
    "type": lambda x: x.attrs.get("__class__") if isinstance(x, Obj) else type(x),
    "complex": lambda re=0, im=0: complex(re, im),
    "divmod": divmod,
    "round": round,
    "pow": pow,
    "object": lambda: Obj("sentinel"),
}

class _NumTower:
    """numbers.Real / Complex / Number as isinstance targets (floats are Fractions in the lifted world)"""

    def __init__(self, name):
        self.name = name

    def check(self, x):
        if isinstance(x, (int, Fraction, float)):
            return self.name != "Rational" or isinstance(x, int)
        if isinstance(x, complex):
            return self.name in ("Complex", "Number")
        return False


class _Chain:
    __lift_host__ = True

    def __call__(self, *its):
        return [x for it in its for x in _it(it)]

    def from_iterable(self, its):
        return [x for it in _it(its) for x in _it(it)]


def _GROUPBY(*a, **k):  # placeholder identity: interpreted in Interp.call (the key function is lifted code)
    raise Unsupported("itertools.groupby outside the interpreter")


def _ACCUMULATE(*a, **k):  # itertools.accumulate: interpreted in Interp.call
    raise Unsupported("accumulate outside the interpreter")


def _REDUCE(*a, **k):  # functools.reduce: interpreted in Interp.call (the function is lifted code or an operator function)
    raise Unsupported("functools.reduce outside the interpreter")


class _OpFn:
    """operator.mul / add / ...: the binary (unary) operation of the interpreter"""

    def __init__(self, op, unary=False):
        self.op, self.unary = op, unary

    def __call__(self, *a):
        raise Unsupported("operator function outside the interpreter")


# documented standard-library semantics used by the analysed code (trusted models)
STDLIB = {
    "numbers.Integral": BUILTINS["int"],
    "numbers.Real": _NumTower("Real"),
    "numbers.Rational": _NumTower("Rational"),
    "numbers.Number": _NumTower("Number"),
    "numbers.Complex": _NumTower("Complex"),
    "itertools.chain": _Chain(),
    "itertools.count": __import__("itertools").count,
    "itertools.groupby": _GROUPBY,
    "itertools.accumulate": _ACCUMULATE,
    "collections.deque": lambda x=(), maxlen=None: _Deque(_it(x)),
    "itertools.product": lambda *a, repeat=1: list(__import__("itertools").product(*[_it(x) for x in a], repeat=repeat)),
    "collections.defaultdict": __import__("collections").defaultdict,
    "functools.cmp_to_key": __import__("functools").cmp_to_key,
    "functools.reduce": _REDUCE,
    "operator.mul": _OpFn(ast.Mult),
    "operator.add": _OpFn(ast.Add),
    "operator.sub": _OpFn(ast.Sub),
    "operator.truediv": _OpFn(ast.Div),
    "operator.pow": _OpFn(ast.Pow),
    "operator.matmul": _OpFn(ast.MatMult),
    "operator.neg": _OpFn(ast.USub, unary=True),
}

_ITER_BUILTINS = {BUILTINS[n] for n in ("enumerate", "zip", "sum", "sorted", "reversed", "any", "all", "map", "filter", "min", "max", "set", "frozenset")}

_PYTYPES = {
    BUILTINS["int"]: int,
    BUILTINS["float"]: float,
    BUILTINS["tuple"]: tuple,
    BUILTINS["list"]: list,
    BUILTINS["dict"]: dict,
    BUILTINS["str"]: str,
    BUILTINS["set"]: set,
    BUILTINS["bool"]: bool,
    BUILTINS["complex"]: complex,
}

# semantic models of the index-notation helpers (the trusted reference semantics)
DEFAULT_OVERRIDES = {
    "as_tensor": uflsem.as_tensor,
    "as_vector": lambda x, idx=None: uflsem.as_tensor(x, idx),
    "as_matrix": lambda x, idx=None: uflsem.as_tensor(x, idx),
    "as_ufl": uflsem.as_T,
    "Index": lambda *a, **k: Idx(),
    "indices": uflsem.indices,
    "sqrt": lambda x: uflsem.t_fn("sqrt", x) if isinstance(x, (T, sym.Ex)) else uflsem.t_fn("sqrt", uflsem.as_T(x)),
    "Sqrt": lambda x: uflsem.t_fn("sqrt", x),
    "zero": lambda *shape: T.zero(tuple(shape[0]) if shape and isinstance(shape[0], (tuple, list)) else tuple(shape)),
    "product": lambda seq: __import__("functools").reduce(operator.mul, list(seq), 1),
}
