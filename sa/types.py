"""E2 -- UFL type model re-derived from the @ufl_type decorators (AST only),
and the optional cross-check against the live registry (resolver (b))."""

from __future__ import annotations

from .model import AnalysisError, ClassInfo, Program

INHERITED_TRAITS = [
    "is_terminal",
    "is_literal",
    "is_terminal_modifier",
    "is_shaping",
    "is_in_reference_frame",
    "is_restriction",
    "is_evaluation",
    "is_differential",
    "is_scalar",
    "is_index_free",
]


def camel2underscore(name: str) -> str:
    letters = []
    lastlower = False
    for i in name:
        thislower = i.islower() or i.isdigit()
        if not thislower:
            if lastlower:
                letters.append("_")
            i = i.lower()
        lastlower = thislower
        letters.append(i)
    return "".join(letters)


class UFLType:
    def __init__(self, cls: ClassInfo):
        self.cls = cls
        self.name = cls.name
        self.handler = camel2underscore(cls.name)
        self.traits: dict = {}

    def __repr__(self):
        return f"<UFLType {self.name}>"

    def __getattr__(self, k):
        if k in ("cls", "name", "handler", "traits"):
            raise AttributeError(k)
        try:
            return self.traits[k]
        except KeyError:
            raise AttributeError(k)


class TypeModel:
    """All classes decorated with @ufl_type, in registration (= typecode) order is NOT
    recovered (it depends on import order); rules never rely on typecode values."""

    def __init__(self, prog: Program):
        self.prog = prog
        self.types: dict[str, UFLType] = {}
        for c in prog.all_classes():
            if c.ufl_type_kwargs is not None:
                if c.name in self.types:
                    raise AnalysisError(f"two @ufl_type classes named {c.name}")
                self.types[c.name] = UFLType(c)
        # Expr itself is registered by a direct call update_ufl_type_attributes(Expr)
        em = prog.modules.get("ufl.core.expr")
        if em is None or "Expr" not in em.classes:
            raise AnalysisError("ufl.core.expr.Expr not found (anchor vanished)")
        ec = em.classes["Expr"]
        ec.ufl_type_kwargs = {"is_abstract": True, "_root": True}
        self.types["Expr"] = UFLType(ec)
        for t in self.types.values():
            self._derive(t)

    def _base_trait(self, c: ClassInfo, trait: str, include_self: bool):
        for k in c.mro()[0 if include_self else 1 :]:
            t = self.types.get(k.name)
            if t is not None and t.cls is k:
                self._derive(t)
                v = t.traits.get(trait)
                if v is not None:
                    return v
            # UFLType metaclass default / class-body attribute
            a = k.assigns.get(f"_ufl_{trait}_")
            if a is not None:
                try:
                    import ast

                    v = ast.literal_eval(a)
                    if v is not None:
                        return v
                except Exception:
                    pass
        return None

    def _derive(self, t: UFLType):
        if t.traits:
            return
        kw = t.cls.ufl_type_kwargs
        tr = t.traits
        if kw.get("_root"):
            import ast as _ast

            tr["is_expr"] = True
            tr["is_abstract"] = True
            for name in INHERITED_TRAITS + ["num_ops"]:
                a = t.cls.assigns.get(f"_ufl_{name}_")
                tr[name] = _ast.literal_eval(a) if a is not None else None
            tr["inherit_shape_from_operand"] = tr["inherit_indices_from_operand"] = None
            tr["use_default_hash"] = True
            return
        tr["_pending"] = True
        is_expr = t.cls.is_subclass_of("Expr")
        tr["is_expr"] = is_expr
        tr["is_abstract"] = bool(kw.get("is_abstract", False))
        is_scalar = kw.get("is_scalar", False)
        for name in INHERITED_TRAITS:
            default = None if name in ("is_terminal", "is_differential") else False
            v = kw.get(name, default)
            if name == "is_index_free" and is_scalar:
                v = True
            # ufl_type passes False (not None) for unspecified boolean traits, so inherit only on None
            if v is None:
                v = self._base_trait(t.cls, name, include_self=False)
            tr[name] = v
        num_ops = kw.get("num_ops")
        if num_ops is None:
            if tr["is_terminal"]:
                num_ops = 0
            elif kw.get("unop"):
                num_ops = 1
            elif kw.get("binop") or kw.get("rbinop"):
                num_ops = 2
            else:
                num_ops = self._base_trait(t.cls, "num_ops", include_self=False)
        tr["num_ops"] = num_ops
        tr["inherit_shape_from_operand"] = kw.get("inherit_shape_from_operand")
        tr["inherit_indices_from_operand"] = kw.get("inherit_indices_from_operand")
        tr["use_default_hash"] = kw.get("use_default_hash", True)
        tr.pop("_pending")

    # ------------------------------------------------------------ queries
    def get(self, name: str) -> UFLType:
        if name not in self.types:
            raise AnalysisError(f"ufl type {name} not found (anchor vanished)")
        return self.types[name]

    def expr_types(self):
        return [t for t in self.types.values() if t.traits["is_expr"]]

    def concrete(self):
        return [t for t in self.expr_types() if not t.traits["is_abstract"]]

    def terminals(self):
        return [t for t in self.concrete() if t.traits["is_terminal"]]

    def operators(self):
        return [t for t in self.concrete() if not t.traits["is_terminal"]]

    def mro_types(self, t: UFLType):
        """MRO restricted to registered ufl types (handler lookup order)."""
        return [self.types[k.name] for k in t.cls.mro() if k.name in self.types and self.types[k.name].cls is k]

    def is_sub(self, t: UFLType | str, base: str) -> bool:
        t = self.get(t) if isinstance(t, str) else t
        return t.cls.is_subclass_of(base)

    def operand_count(self, t: UFLType):
        """Number of operands an instance really carries: length of the literal operand tuple passed
        to Operator.__init__ / assigned to self.ufl_operands in the nearest class that has one;
        falls back to the declared num_ops ('varying' stays 'varying')."""
        import ast

        from .model import norm

        if t.traits["is_terminal"]:
            return 0
        for k in t.cls.mro():
            found = []
            for fi in k.all_defs:
                for n in ast.walk(fi.node):
                    tup = None
                    if isinstance(n, ast.Call) and norm(n.func).endswith(".__init__") and len(n.args) >= 2 and norm(n.args[0]) == "self":
                        tup = n.args[1]
                    elif isinstance(n, ast.Assign) and any(norm(x) == "self.ufl_operands" for x in n.targets):
                        tup = n.value
                    if isinstance(tup, ast.Tuple) and not any(isinstance(e, ast.Starred) for e in tup.elts):
                        found.append(len(tup.elts))
            if found:
                return max(found)
            if k.name in self.types and self.types[k.name].cls is k and k.ufl_type_kwargs.get("num_ops") == "varying":
                return "varying"
        return t.traits["num_ops"]

    # --------------------------------------------------------- cross-check
    def crosscheck_runtime(self):
        """Compare with the live registry (imports ufl from the working tree; executes
        class bodies and decorators only).  Returns a dict of counts; raises AnalysisError
        on disagreement."""
        import importlib
        import sys

        repo = self.prog.repo
        if repo not in sys.path:
            sys.path.insert(0, repo)
        ufl = importlib.import_module("ufl")
        if not ufl.__file__.startswith(repo):
            raise AnalysisError(f"imported ufl from {ufl.__file__}, not from {repo}")
        importlib.import_module("ufl.classes")
        from ufl.core.expr import Expr

        reg = {c.__name__: c for c in Expr._ufl_all_classes_ if c.__module__.startswith("ufl")}
        mine = set(self.types)
        # classes only registered when an optional module is imported are fine on my side
        missing = set(reg) - mine
        if missing:
            raise AnalysisError(f"types in live registry unknown to AST resolver: {sorted(missing)}")
        n = 0
        for name, rc in reg.items():
            t = self.types[name]
            if not issubclass(rc, Expr):
                continue
            n += 1
            if rc._ufl_handler_name_ != t.handler:
                raise AnalysisError(f"handler name mismatch for {name}")
            for trait in ["is_abstract", "is_terminal", "is_scalar", "is_index_free", "is_shaping", "is_terminal_modifier", "is_in_reference_frame", "is_restriction", "is_evaluation", "is_differential", "is_literal", "num_ops"]:
                rv = getattr(rc, f"_ufl_{trait}_")
                mv = t.traits[trait]
                if (rv or None) != (mv or None):
                    raise AnalysisError(f"trait {trait} of {name}: AST says {mv!r}, runtime says {rv!r}")
            rmro = [k.__name__ for k in rc.__mro__ if k.__name__ in reg]
            mmro = [u.name for u in self.mro_types(t)]
            if rmro != mmro:
                raise AnalysisError(f"MRO mismatch for {name}: {mmro} vs {rmro}")
        return {"runtime_registered": len(reg), "expr_types_checked": n}
