#!/venv/bin/python
"""Assemble DESIGN.md = docs/design_head.md + generated per-property sections + docs/design_tail.md (with the seeded matrix)."""
import os, subprocess, sys
HERE = os.path.dirname(os.path.dirname(os.path.abspath(__file__)))
head = open(os.path.join(HERE, "docs", "design_head.md")).read()
tail = open(os.path.join(HERE, "docs", "design_tail.md")).read()
sections = subprocess.run([os.path.join(HERE, "tools", "gen_design_sections.py")], capture_output=True, text=True, check=True).stdout
mp = os.path.join(HERE, "seeded", "MATRIX.md")
matrix = ""
if os.path.exists(mp):
    lines = open(mp).read().splitlines()
    matrix = "\n".join(l for l in lines if l.startswith("|"))
tail = tail.replace("SEED_MATRIX_PLACEHOLDER", matrix or "(run tools/seed_matrix.py)")
rp = os.path.join(HERE, "refactors", "MATRIX.md")
tail = tail.replace("REFACTOR_MATRIX_PLACEHOLDER", open(rp).read().strip() if os.path.exists(rp) else "(no refactor round yet)")
open(os.path.join(HERE, "DESIGN.md"), "w").write(head + sections + "\n" + tail)
print("DESIGN.md written")
