#!/bin/bash
# usage: tools/try_patch.sh <patch.diff> <prop>[,<prop>...]   -- run quick checks against a scratch copy of /repo with the patch applied
patch=$(realpath $1); props=$2
S=/tmp/scratch/p$$
rm -rf $S; mkdir -p /tmp/scratch; git -C /repo worktree add --detach $S HEAD >/dev/null 2>&1 || exit 3
( cd $S && git apply $patch ) || { git -C /repo worktree remove --force $S; exit 3; }
for p in ${props//,/ }; do
  VERIF_OUT=/tmp/scratch/out$$ /verif/check $p --repo $S 2>&1 | grep -E "^VIOLATION|ANALYSIS-ERROR|exit [0-9]|^ufl|Error|^  File" | cut -c1-${CUT:-400} | head -${HEADN:-8}
done
git -C /repo worktree remove --force $S; rm -rf /tmp/scratch/out$$
