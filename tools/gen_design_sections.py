#!/venv/bin/python
"""Emit the per-property section of DESIGN.md from the rule modules' docstrings and claims.py (kept in
one place so that the document cannot drift from the checks)."""
import ast, json, os, sys
HERE = os.path.dirname(os.path.dirname(os.path.abspath(__file__)))
sys.path.insert(0, HERE)
from claims import CLAIMS, NOT_APPLICABLE
props = [json.loads(l) for l in open(os.path.join(HERE, "properties.jsonl"))]
out = []
for p in props:
    pid = p["id"]
    out.append(f"### {pid} — {p['title']}\n")
    path = os.path.join(HERE, "sa", "rules", pid.lower() + ".py")
    if pid in CLAIMS and os.path.exists(path):
        doc = ast.get_docstring(ast.parse(open(path).read())) or ""
        c = CLAIMS[pid]
        out.append(f"*Level:* `{c['level']}`.  *Technique:* {c['technique']}.\n")
        out.append("Rules (from `sa/rules/%s.py`):\n" % pid.lower())
        out.append("```\n" + doc.strip() + "\n```\n")
        out.append(f"*Not decided / trusted base:* {c['note']}\n")
    else:
        out.append(f"Not applicable: {NOT_APPLICABLE.get(pid, 'not built')}\n")
print("\n".join(out))
