import json, subprocess, os, sys
props = {json.loads(l)['id']: json.loads(l) for l in open('/verif/properties.jsonl')}
# usage: mkrefactor.py <round> <Cxx> ...   (behaviour-PRESERVING edits: the checks must stay silent on them)
# derived from mkprompts.py   (worktrees /tmp/wt<round>/<id>, outputs /tmp/seeded_out<round>/<id>, prompts /tmp/prompts<round>)
# The prompt carries the property text and, as "already taken", the one-paragraph summaries that earlier sub-agents
# wrote for their own changes (seeded/<id>_<n>/meta.json) - nothing about the checkers.
STYLES = {
    "1": "YOUR TASK: produce ONE realistic BEHAVIOUR-PRESERVING refactoring of the library source under {wt}/ufl/ in the code this property is about - the kind of clean-up a maintainer would merge: rename local variables and private helpers, extract or inline helper functions, turn loops into comprehensions (or back), reorder independent statements, replace an idiom by an equivalent one (dict.get vs try/except KeyError, zip vs index loops, early returns vs nested ifs, tuple vs list intermediates), split a long function, move a constant, add or reword comments and docstrings, add a *correct* fast path or a *correctly keyed* cache.",
    "2": "YOUR TASK: produce ONE realistic BEHAVIOUR-PRESERVING *structural* refactoring of the library source under {wt}/ufl/ in the code this property is about - deeper than renaming locals: rename PRIVATE attributes, private methods and private module-level names (everything starting with an underscore that is not part of the documented API; update every use in the package), change internal data structures (list <-> tuple <-> deque, dict <-> defaultdict, a pair of parallel lists <-> a list of pairs, a class-level dict cache <-> an equivalent correctly keyed cache elsewhere), move a private helper to another module of the package (importing it where it is used), merge two near-identical handlers into one shared implementation or split one handler into two, replace an explicit stack loop by an equivalent formulation, introduce a small private helper class or dataclass for a tuple that is passed around, add a *correct* memo (keyed by everything the value depends on, owned by the right object) or remove a redundant one.",
}
rnd = sys.argv[1]
ids = sys.argv[2:]
import glob
TAKEN = {}
for m in sorted(glob.glob("/verif/seeded/*/meta.json")):
    d = json.load(open(m))
    TAKEN.setdefault(d["property"], []).append(d.get("summary", "")[:700])
TAKEN = {k: " || ALSO TAKEN: ".join(v) for k, v in TAKEN.items()}
os.makedirs(f"/tmp/rprompts{rnd}", exist_ok=True)
for pid in ids:
    p = props[pid]
    wt = f"/tmp/rf{rnd}/{pid}"
    out = f"/tmp/refactor_out{rnd}/{pid}"
    if not os.path.exists(wt):
        subprocess.run(["git","-C","/repo","worktree","add","--detach",wt,"HEAD"],check=True,capture_output=True)
    os.makedirs(out, exist_ok=True)
    taken = TAKEN.get(pid, "(none)")
    anchors = json.dumps(p.get("anchors"), indent=1).replace("/repo/", wt + "/")
    style = STYLES.get(rnd, STYLES["1"]).replace("{wt}", wt)
    txt = f"""You are helping evaluate how robust a verification effort is against FALSE ALARMS. You are given ONE behavioural property of the FEniCS/ufl Python library (UFL, the Unified Form Language) and your own scratch git worktree of the library at {wt} (a checkout of the current HEAD). Work ONLY inside {wt} and write your outputs to {out}. Do not look at or touch /repo or /verif, and do not read anything outside {wt} except the Python standard library / installed packages.

PROPERTY {pid}: {p['title']}
Statement: {p['statement']}
Quantifier: {p['quantifier']['text']}
Code anchors (where the behaviour lives): {anchors}

{style} Touch 20-80 lines, preferably in the functions named in the anchors and their direct helpers. The observable behaviour of the public API must be EXACTLY the same for every input (same results, same exceptions for invalid input, same object sharing where it is observable); do not change public names or signatures.
  (a) the package still imports and the WHOLE existing test-suite still passes unchanged:  cd {wt} && PYTHONPATH={wt} /venv/bin/python -m pytest -q -p no:cacheprovider -n 8   (977 tests; you must run this with your change applied and see it pass - do not edit anything under test/ or demo/);
  (b) it is a real restructuring of the logic's text (not only comments/whitespace), touching only files under ufl/.

DELIVERABLES, all in {out}/ :
  1. patch.diff  - output of `git -C {wt} diff` (unified diff relative to HEAD; must apply with `git apply` at the repo root).
  2. demo.py     - a small stand-alone program (run as: cd <tree> && PYTHONPATH=<tree> /venv/bin/python demo.py) that exercises the refactored code on a handful of varied inputs (including at least one unusual input) and prints PASS / exits 0 on BOTH the original tree and the refactored tree (it checks the results against values you computed by hand or by an independent small evaluator). It must be deterministic.
  3. meta.json   - {{"property": "{pid}", "kind": "refactor", "summary": "<one paragraph: what was restructured and why behaviour is unchanged>", "files_changed": [...], "ran": ["<commands you ran and their outcome>"]}}

Verify yourself before finishing: with the change applied the test-suite passes (977 passed) and demo.py PASSES; with the change reverted (`git -C {wt} diff > {out}/patch.diff; git -C {wt} apply -R {out}/patch.diff`, then re-apply with `git -C {wt} apply {out}/patch.diff`; NEVER use `git stash`) demo.py PASSES too. Leave the worktree with the change applied. In your final answer, state briefly what you restructured. Python is /venv/bin/python (3.12); numpy is available; there is no network.
"""
    open(f"/tmp/rprompts{rnd}/{pid}.txt","w").write(txt)
print("ok")
