import json, subprocess, os, sys
props = {json.loads(l)['id']: json.loads(l) for l in open('/verif/properties.jsonl')}
# usage: mkprompts.py <round> <Cxx> ...   (worktrees /tmp/wt<round>/<id>, outputs /tmp/seeded_out<round>/<id>, prompts /tmp/prompts<round>)
# The prompt carries the property text and, as "already taken", the one-paragraph summaries that earlier sub-agents
# wrote for their own changes (seeded/<id>_<n>/meta.json) - nothing about the checkers.
rnd = sys.argv[1]
ids = sys.argv[2:]
# BASE_REFACTOR=r2: the worktree starts from HEAD + refactors/<id>_r2/patch.diff (a behaviour-preserving restructuring written by
# another sub-agent), so that the breaking change lands in restructured code; the delivered patch.diff is the complete diff vs HEAD
BASE = os.environ.get("BASE_REFACTOR")
import glob
TAKEN = {}
for m in sorted(glob.glob("/verif/seeded/*/meta.json")):
    d = json.load(open(m))
    TAKEN.setdefault(d["property"], []).append(d.get("summary", "")[:700])
TAKEN = {k: " || ALSO TAKEN: ".join(v) for k, v in TAKEN.items()}
os.makedirs(f"/tmp/prompts{rnd}", exist_ok=True)
for pid in ids:
    p = props[pid]
    wt = f"/tmp/wt{rnd}/{pid}"
    out = f"/tmp/seeded_out{rnd}/{pid}"
    if not os.path.exists(wt):
        subprocess.run(["git","-C","/repo","worktree","add","--detach",wt,"HEAD"],check=True,capture_output=True)
    os.makedirs(out, exist_ok=True)
    base_txt = ""
    if BASE:
        bp = f"/verif/refactors/{pid}_{BASE}/patch.diff"
        import shutil
        shutil.copy(bp, f"{out}/baseline.diff")
        if not subprocess.run(["git", "-C", wt, "diff", "--quiet"]).returncode:
            subprocess.run(["git", "-C", wt, "apply", f"{out}/baseline.diff"], check=True)
        base_txt = f"""\n\nBASELINE: your worktree is HEAD plus uncommitted local modifications by a colleague - a recent behaviour-preserving internal restructuring (all tests pass with it, results are identical to HEAD). It is stored as {out}/baseline.diff; `git -C {wt} checkout -- . && git -C {wt} apply {out}/baseline.diff` restores the baseline at any time. Treat the restructured code as THE code: wherever the text below says "ORIGINAL tree" it means this baseline, and your change must be made on top of it - preferably INSIDE the restructured code (the helpers, records and tables the colleague introduced). Because nothing is committed, `git -C {wt} diff` at the end is the complete diff relative to HEAD (the colleague's restructuring plus your change): deliver exactly that as patch.diff. demo.py must pass on the baseline (and therefore also on plain HEAD) and fail with your change."""
    taken = TAKEN.get(pid, "(none)")
    anchors = json.dumps(p.get("anchors"), indent=1).replace("/repo/", wt + "/")
    txt = f"""You are helping evaluate how robust a verification effort is. You are given ONE behavioural property of the FEniCS/ufl Python library (UFL, the Unified Form Language) and your own scratch git worktree of the library at {wt} (a checkout of the current HEAD). Work ONLY inside {wt} and write your outputs to {out}. Do not look at or touch /repo or /verif, and do not read anything outside {wt} except the Python standard library / installed packages.

PROPERTY {pid}: {p['title']}
Statement: {p['statement']}
Quantifier: {p['quantifier']['text']}
Why tests cannot settle it: {p['why_tests_cant']}
Code anchors (where the behaviour lives): {anchors}

{base_txt.strip() and ("BASELINE NOTE:" + base_txt) }

ALREADY TAKEN (another engineer has already produced a change with this idea; you must choose a clearly DIFFERENT one - different function or mechanism): {taken}\n\nYOUR TASK: produce ONE realistic change (a plausible bug a maintainer could introduce: a refactor slip, an over-eager optimisation/simplification, a wrong index/sign/guard, a forgotten case, a cache keyed too coarsely, two cooperating sites that each look fine alone, ...) to the library source under {wt}/ufl/ that BREAKS the property above while:
  (a) the package still imports and the WHOLE existing test-suite still passes unchanged:  cd {wt} && PYTHONPATH={wt} /venv/bin/python -m pytest -q -p no:cacheprovider -n 8   (977 tests, ~10 s; you must run this with your change applied and see it pass — do not edit anything under test/ or demo/);
  (b) the breakage needs something SPECIFIC to manifest — an unusual input (particular shapes, dimensions, index patterns, element kinds, nesting), a multi-step sequence of operations, a particular order of object creation, two cooperating sites — NOT something that ordinary use or the simplest call would expose at once; prefer subtle over blatant, and prefer changes in the logic the property is about (not in unrelated plumbing, not raising exceptions everywhere, not deleting features);
  (c) it is a small diff (typically 1-15 changed lines), touching only files under ufl/.

DELIVERABLES, all in {out}/ :
  1. patch.diff  — output of `git -C {wt} diff` (unified diff relative to HEAD; must apply with `git apply` at the repo root).
  2. demo.py     — a small stand-alone program (run as: cd <tree> && PYTHONPATH=<tree> /venv/bin/python demo.py, it must import ufl from the tree given by PYTHONPATH) that exits 0 and prints PASS on the ORIGINAL tree and exits non-zero (assert failure / printed FAIL) on the tree WITH your change. It must demonstrate the violation of the property as stated (e.g. by evaluating expressions numerically with ufl's own point evaluation or by your own small evaluator, comparing signatures, comparing results of algorithms, ...), not merely detect that the source text changed. It must be deterministic.
  3. meta.json   — {{"property": "{pid}", "summary": "<one paragraph: what the change does>", "needs_to_manifest": "<what specific input/sequence is needed>", "files_changed": [...], "ran": ["<commands you ran and their outcome>"]}}

Verify yourself before finishing: with the change applied the test-suite passes (977 passed) and demo.py FAILS; with the change reverted (`git -C {wt} diff > {out}/patch.diff; git -C {wt} apply -R {out}/patch.diff`, then re-apply with `git -C {wt} apply {out}/patch.diff`; NEVER use `git stash`: the stash is shared between worktrees of other people) demo.py PASSES. Leave the worktree with the change applied. In your final answer, state briefly what you changed and confirm the three verifications. Python is /venv/bin/python (3.12); numpy is available; there is no network.
"""
    open(f"/tmp/prompts{rnd}/{pid}.txt","w").write(txt)
print("ok")
