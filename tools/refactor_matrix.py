#!/venv/bin/python
"""Regenerate refactors/MATRIX.md from refactors/*/meta.json (written by tools/seed_eval.py --refactor)."""

import glob
import json
import os

VERIF = os.path.dirname(os.path.dirname(os.path.abspath(__file__)))


def main():
    rows = ["| edit | files | all 29 checks silent | was a false alarm / analysis error of (closed) | what was restructured |", "|---|---|---|---|---|"]
    for d in sorted(glob.glob(os.path.join(VERIF, "refactors", "*_r*"))):
        mp = os.path.join(d, "meta.json")
        if not os.path.exists(mp):
            continue
        m = json.load(open(mp))
        checks = m.get("confirmed_by", {}).get("checks_quick", {})
        silent = checks and all(v.startswith("silent") for v in checks.values())
        files = ", ".join(os.path.basename(f) for f in m.get("files_changed", []))
        reg = ", ".join(m.get("regression_for", [])) or "-"
        summary = " ".join(str(m.get("summary", "")).split()).replace("|", "/")[:160]
        rows.append(f"| {os.path.basename(d)} | {files} | {'yes' if silent else 'NO: ' + ', '.join(k for k, v in checks.items() if not v.startswith('silent'))} | {reg} | {summary} |")
    open(os.path.join(VERIF, "refactors", "MATRIX.md"), "w").write("\n".join(rows) + "\n")
    print(f"{len(rows) - 2} edits")


if __name__ == "__main__":
    main()
