#!/venv/bin/python
"""Regenerate /verif/MANIFEST.json from the claims table below + rule modules present."""
import json, os, sys
HERE = os.path.dirname(os.path.dirname(os.path.abspath(__file__)))
sys.path.insert(0, HERE)
from claims import CLAIMS, NOT_APPLICABLE  # noqa: E402

props = [json.loads(l) for l in open(os.path.join(HERE, "properties.jsonl"))]
checks, na = [], []
for p in props:
    pid = p["id"]
    c = CLAIMS.get(pid)
    has_rule = os.path.exists(os.path.join(HERE, "sa", "rules", pid.lower() + ".py"))
    if c and has_rule:
        checks.append({
            "property_id": pid,
            "quick_cmd": f"./check {pid} --tier quick",
            "thorough_cmd": f"./check {pid} --tier thorough",
            "evidence_file": f"/verif/evidence/{pid}.json",
            "replay_cmd_template": f"./check {pid} --replay {{path}}",
            "engine": "sa",
            "level_claimed": {"category": c["level"], "text": c["text"], "design_ref": f"DESIGN.md section 3, {pid}"},
            "level_note": c["note"],
            "technique": c["technique"],
        })
    else:
        na.append({"property_id": pid, "reason": NOT_APPLICABLE.get(pid, "static check for this property is not built yet (work in progress); nothing is claimed")})
man = {
    "version": 1,
    "setup_cmd": "true",
    "hooks": {"guard": "FENICS_UFL_VERIF", "enable": "no hooks: the analysis is external (reads /repo sources); nothing in /repo is guarded", "baseline_off_cmd": "cd /repo && /venv/bin/python -m pytest -q -p no:cacheprovider -n 8", "source_commits": [], "add_only": True},
    "engines": [{"name": "sa", "path": "/verif/sa", "serves_properties": [c["property_id"] for c in checks], "kind_free_text": "custom static analysis over Python ast: program/type/dispatch model, structured flow + guards, dataflow taints, lifting of formula tables to a term algebra with exact polynomial normal forms"}],
    "checks": checks,
    "not_applicable": na,
    "notes": "All checks are static: they parse /repo/ufl from the current working tree on every run. `import ufl` is used only as a second resolver (class registry / MRO / dispatch cross-check); no UFL expression is ever built or evaluated. Exit 2 + ANALYSIS-ERROR means the analysis lost an anchor, never a property verdict.",
}
json.dump(man, open(os.path.join(HERE, "MANIFEST.json"), "w"), indent=1)
print(f"{len(checks)} checks claimed, {len(na)} not applicable / not built")
