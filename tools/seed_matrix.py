#!/venv/bin/python
"""Re-confirm every kept seeded change and run all quick checks against it (scratch worktrees of /repo under /tmp,
removed afterwards).  Rewrites seeded/<id>/meta.json (confirmed_by) and seeded/MATRIX.md.

  tools/seed_matrix.py [ids...]      default: all directories under /verif/seeded
  tools/seed_matrix.py --table-only  rewrite MATRIX.md from the meta.json files as they are
"""
import json, os, subprocess, sys
from concurrent.futures import ThreadPoolExecutor

VERIF = os.path.dirname(os.path.dirname(os.path.abspath(__file__)))
SEEDED = os.path.join(VERIF, "seeded")
TABLE_ONLY = "--table-only" in sys.argv
ids = [a for a in sys.argv[1:] if not a.startswith("--")] or sorted(d for d in os.listdir(SEEDED) if os.path.isdir(os.path.join(SEEDED, d)))


def one(d):
    p = subprocess.run([os.path.join(VERIF, "tools", "seed_eval.py"), os.path.join(SEEDED, d), "--checks", "all", "--keep-as", d], capture_output=True, text=True)
    try:
        return d, json.loads(p.stdout[p.stdout.index("{") :])
    except Exception:
        return d, {"error": (p.stdout + p.stderr)[-400:]}


if TABLE_ONLY:
    results = {}
else:
    with ThreadPoolExecutor(max_workers=3) as ex:
        results = dict(ex.map(one, ids))
rows = []
for d in sorted(os.listdir(SEEDED)):
    mp = os.path.join(SEEDED, d, "meta.json")
    if not os.path.exists(mp):
        continue
    m = json.load(open(mp))
    cb = m.get("confirmed_by", {})
    chk = cb.get("checks_quick", {})
    caught = sorted(c for c, v in chk.items() if v.startswith("caught"))
    errs = sorted(c for c, v in chk.items() if v.startswith("analysis"))
    rules = []
    for c in caught:
        for r in cb.get("first_reports", {}).get(c, [])[:1]:
            if "[" in r:
                rules.append(r[r.index("[") + 1 : r.index("]")])
    summ = (m.get("summary") or "").replace("\n", " ").replace("|", "/")
    rows.append(f"| {d} | {m['property']} | {summ[:150]} | {', '.join(caught) or '**missed**'}{' (analysis-error: ' + ', '.join(errs) + ')' if errs else ''} | {', '.join(rules)} |")
with open(os.path.join(SEEDED, "MATRIX.md"), "w") as fh:
    fh.write("# Seeded changes and the checks that catch them\n\nEach change was produced by an independent sub-agent that saw only the property text and a scratch worktree; each was confirmed here (patch applies to /repo HEAD, the pinned test-suite passes with it, demo.py passes without and fails with it) and then every quick check was run against a scratch worktree with the patch applied.\n\n| seed | property | change | caught by | first rule reporting |\n|---|---|---|---|---|\n")
    fh.write("\n".join(rows) + "\n")
for d, r in results.items():
    print(d, "confirmed" if r.get("confirmed") else r.get("error", "NOT CONFIRMED"), {c: v["exit"] for c, v in r.get("checks", {}).items() if v["exit"]})
