#!/bin/bash
# Verify seeded changes independently: demo passes on clean tree, patch applies, suite passes,
# demo fails with the change; then record what our checks say.  Uses a scratch worktree of /repo.
# usage: verify_seeded.sh <outdir of agent e.g. /tmp/seeded_out/C06_1> [more...]
WT=/tmp/wt/verify
if [ ! -d $WT ]; then git -C /repo worktree add -q --detach $WT HEAD; fi
git -C $WT checkout -q --detach $(git -C /repo rev-parse HEAD) 2>/dev/null
for d in "$@"; do
  id=$(basename $d); prop=${id%%_*}
  git -C $WT checkout -q -- . ; git -C $WT clean -fdq
  # demos may hard-code the agent's worktree path: make it resolve to the scratch worktree
  for alias in /tmp/wt/$prop /tmp/wt/${id}; do [ -e $alias ] || ln -sfn $WT $alias; done
  if [ ! -f $d/patch.diff ] || [ ! -f $d/demo.py ]; then echo "$id: MISSING files"; continue; fi
  (cd $WT && timeout 300 /venv/bin/python $d/demo.py >/tmp/vs_clean.log 2>&1); clean=$?
  if ! git -C $WT apply --check $d/patch.diff 2>/dev/null; then echo "$id: patch does not apply"; continue; fi
  git -C $WT apply $d/patch.diff
  (cd $WT && timeout 600 /venv/bin/python -m pytest -q -p no:cacheprovider -n 8 2>&1 | tail -1 > /tmp/vs_tests.log); tests=$(cat /tmp/vs_tests.log)
  (cd $WT && timeout 300 /venv/bin/python $d/demo.py >/tmp/vs_mut.log 2>&1); mut=$?
  chk=$(/verif/check $prop --repo $WT 2>&1 | grep -E "^VIOLATION|ANALYSIS-ERROR|exit [012]$|no rule module" | tail -1)
  nviol=$(/verif/check $prop --repo $WT 2>&1 | grep -c "^VIOLATION")
  git -C $WT checkout -q -- . ; git -C $WT clean -fdq
  for alias in /tmp/wt/$prop /tmp/wt/${id}; do [ -L $alias ] && rm -f $alias; done
  echo "$id: demo_clean=$clean demo_mut=$mut tests=[$tests] check_violations=$nviol :: $chk"
done
