#!/venv/bin/python
"""Confirm a candidate seeded change and run the checks against it.

  tools/seed_eval.py <candidate-dir> [--keep-as <name>] [--checks C01,C02|all]

candidate-dir holds patch.diff, demo.py, meta.json (written by an independent sub-agent).
Steps (all in a scratch worktree of /repo under /tmp, removed afterwards):
  1. demo.py passes on HEAD; 2. patch applies; 3. the pinned test-suite passes with the patch;
  4. demo.py fails with the patch; 5. every requested check is run with --repo <scratch> and its verdict recorded.
With --keep-as the confirmed candidate is copied to /verif/seeded/<name>/ and meta.json is completed.
"""
import argparse, json, os, shutil, subprocess, sys, time

VERIF = os.path.dirname(os.path.dirname(os.path.abspath(__file__)))


def sh(cmd, cwd=None, env=None, timeout=1800):
    p = subprocess.run(cmd, shell=True, cwd=cwd, env=env, capture_output=True, text=True, timeout=timeout)
    return p.returncode, p.stdout + p.stderr


def main():
    ap = argparse.ArgumentParser()
    ap.add_argument("cand")
    ap.add_argument("--keep-as")
    ap.add_argument("--checks", default=None)
    ap.add_argument("--skip-tests", action="store_true")
    ap.add_argument("--refactor", action="store_true", help="the candidate is a behaviour-preserving edit: the demonstration must pass with it and every check must stay silent (kept under /verif/refactors/<name>)")
    a = ap.parse_args()
    cand = os.path.abspath(a.cand)
    meta = json.load(open(os.path.join(cand, "meta.json")))
    prop = meta["property"]
    wt = f"/tmp/seedwt/{os.path.basename(cand)}_{os.getpid()}"
    os.makedirs("/tmp/seedwt", exist_ok=True)
    rc, out = sh(f"git -C /repo worktree add --detach {wt} HEAD")
    assert rc == 0, out
    env = dict(os.environ, PYTHONPATH=wt, PYTHONDONTWRITEBYTECODE="1")
    res = {"property": prop}
    try:
        shutil.copy(os.path.join(cand, "demo.py"), os.path.join(wt, "_demo.py"))
        rc, out = sh("/venv/bin/python _demo.py", cwd=wt, env=env)
        res["demo_on_head"] = rc
        rc2, out2 = sh(f"git apply {cand}/patch.diff", cwd=wt)
        res["apply"] = rc2
        if rc2 != 0:
            print(out2)
        if not a.skip_tests:
            rc3, out3 = sh("/venv/bin/python -m pytest -q -p no:cacheprovider -n 8 -x 2>&1 | tail -3", cwd=wt, env=env)
            res["tests"] = out3.strip().splitlines()[-1] if out3.strip() else ""
        rc4, out4 = sh("/venv/bin/python _demo.py", cwd=wt, env=env)
        res["demo_with_patch"] = rc4
        res["demo_tail"] = out4.strip().splitlines()[-3:]
        os.remove(os.path.join(wt, "_demo.py"))
        confirmed = res["demo_on_head"] == 0 and rc2 == 0 and (rc4 == 0 if a.refactor else rc4 != 0) and (a.skip_tests or " passed" in res["tests"] and "failed" not in res["tests"])
        res["confirmed"] = confirmed
        checks = [prop] if not a.checks else ([c["property_id"] for c in json.load(open(os.path.join(VERIF, "MANIFEST.json")))["checks"]] if a.checks == "all" else a.checks.split(","))
        res["checks"] = {}
        procs = {}
        for c in checks:
            procs[c] = subprocess.Popen(f"{VERIF}/check {c} --tier quick --repo {wt}", shell=True, stdout=subprocess.PIPE, stderr=subprocess.STDOUT, text=True, env=dict(os.environ, VERIF_OUT=f"/tmp/seedwt/out_{os.getpid()}"))
        for c, p in procs.items():
            o, _ = p.communicate()
            lines = [l for l in o.splitlines() if "[C" in l and "] " in l and not l.startswith("KNOWN")]
            res["checks"][c] = {"exit": p.returncode, "reports": [l[:300] for l in lines[:4]], "errors": [l[:300] for l in o.splitlines() if "ANALYSIS-ERROR" in l][:2]}
        print(json.dumps(res, indent=1))
        if a.keep_as and confirmed:
            dst = os.path.join(VERIF, "refactors" if a.refactor else "seeded", a.keep_as)
            os.makedirs(dst, exist_ok=True)
            for f in ("patch.diff", "demo.py"):
                if os.path.realpath(os.path.join(cand, f)) != os.path.realpath(os.path.join(dst, f)):
                    shutil.copy(os.path.join(cand, f), os.path.join(dst, f))
            meta["confirmed_by"] = {
                "ran": [
                    "git worktree of /repo HEAD under /tmp; demo.py on HEAD -> exit %d" % res["demo_on_head"],
                    "git apply patch.diff -> ok",
                    "pytest -q -p no:cacheprovider -n 8 with the patch -> %s" % res.get("tests"),
                    "demo.py with the patch -> exit %d" % rc4,
                ],
                "checks_quick": {c: (("FALSE ALARM (exit 1)" if a.refactor else "caught (exit 1)") if v["exit"] == 1 else "analysis-error (exit 2)" if v["exit"] == 2 else ("silent (exit 0)" if a.refactor else "missed (exit 0)")) for c, v in res["checks"].items()},
                "first_reports": {c: v["reports"][:2] for c, v in res["checks"].items() if v["reports"]},
                "repo_head": subprocess.run("git -C /repo rev-parse --short HEAD", shell=True, capture_output=True, text=True).stdout.strip(),
            }
            json.dump(meta, open(os.path.join(dst, "meta.json"), "w"), indent=1)
    finally:
        sh(f"git -C /repo worktree remove --force {wt}")
        shutil.rmtree(f"/tmp/seedwt/out_{os.getpid()}", ignore_errors=True)


main()
