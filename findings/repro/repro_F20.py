import ufl
from ufl.corealg.multifunction import MultiFunction
from ufl.algorithms.transformer import ReuseTransformer
from ufl.core.operator import Operator
from ufl.core.ufl_type import ufl_type
from ufl.constantvalue import IntValue
class MF(MultiFunction):
    def __init__(self): MultiFunction.__init__(self)
    expr = MultiFunction.reuse_if_untouched
MF(); ReuseTransformer()
@ufl_type(num_ops=1, inherit_shape_from_operand=0, inherit_indices_from_operand=0)
class Late(Operator):
    __slots__=()
    def __init__(self, a): Operator.__init__(self,(a,))
e = Late(IntValue(2))
print(MF()(e, *e.ufl_operands) is e, ReuseTransformer().visit(e) is e)
