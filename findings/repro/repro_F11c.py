"""F11c: metadata values 1 and "1" (None and "None") gave the same signature through str()."""
import sys
sys.path.insert(0, "/repo/test")
from utils import LagrangeElement
from ufl import Coefficient, FunctionSpace, Mesh, triangle, dx

m = Mesh(LagrangeElement(triangle, 1, (2,)))
f = Coefficient(FunctionSpace(m, LagrangeElement(triangle, 1)))
a = (f * dx(metadata={"quadrature_degree": 2})).signature()
b = (f * dx(metadata={"quadrature_degree": "2"})).signature()
c = (f * dx(metadata={"w": None})).signature()
d = (f * dx(metadata={"w": "None"})).signature()
print("2 vs '2' same:", a == b, "; None vs 'None' same:", c == d)
sys.exit(1 if (a == b or c == d) else 0)
