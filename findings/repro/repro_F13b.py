"""F13b: the repr of a function space dropped its label: unequal spaces (and coefficients on them)
had identical repr, and eval(repr(V)) != V."""
import sys
sys.path.insert(0, "/repo/test")
from utils import LagrangeElement
from ufl import Coefficient, FunctionSpace, Mesh, triangle
from ufl.classes import *  # noqa: F401,F403  (names used by the repr)

m = Mesh(LagrangeElement(triangle, 1, (2,)))
e = LagrangeElement(triangle, 1)
V, Va = FunctionSpace(m, e), FunctionSpace(m, e, label="a")
f, fa = Coefficient(V, count=0), Coefficient(Va, count=0)
print("V == Va:", V == Va, " same repr:", repr(V) == repr(Va))
print("f == fa:", f == fa, " same repr:", repr(f) == repr(fa))
bad = (V != Va and repr(V) == repr(Va)) or (f != fa and repr(f) == repr(fa))
sys.exit(1 if bad else 0)
