import sys; sys.path.insert(0,'/repo/test')
from ufl import *; from utils import LagrangeElement
from ufl.classes import IndexSum, Identity, MultiIndex, Jacobian, JacobianInverse, Product, Power, Division, FloatValue, IntValue
from ufl.algorithms.cancel_jacobian_products import cancel_jacobian_products, IdentityEliminator, JacobianCanceller, ReciprocalCanceller
from ufl.corealg.map_dag import map_expr_dag
m = Mesh(LagrangeElement(triangle,1,(2,)))
B = Coefficient(FunctionSpace(m, LagrangeElement(triangle,1,(2,2))))
c = Coefficient(FunctionSpace(m, LagrangeElement(triangle,1,(2,))))
f = Coefficient(FunctionSpace(m, LagrangeElement(triangle,1)))
a,k,j = indices(3)
I = Identity(2)
# F9a
e = IndexSum(Product(I[a,k], IndexSum(B[k,a], MultiIndex((a,)))), MultiIndex((k,)))
r = IdentityEliminator()(e)
print("F9a", e.ufl_free_indices, "->", r.ufl_free_indices, str(r))
# F9b
J = Jacobian(m); K = JacobianInverse(m)
e = IndexSum(Product(K[j,k], IndexSum(Product(J[k,j], c[j]), MultiIndex((j,)))), MultiIndex((k,)))
r = JacobianCanceller()(e)
print("F9b", e.ufl_free_indices, "->", r.ufl_free_indices, str(r))
# F9c
e = Product(Power(Power(f, IntValue(2)), FloatValue(0.5)), Division(IntValue(1), f))
r = ReciprocalCanceller()(e)
print("F9c", str(e), "->", str(r))
e = Product(Power(Power(f, FloatValue(0.5)), IntValue(2)), Division(IntValue(1), f))
print("ok-merge", str(ReciprocalCanceller()(e)))
