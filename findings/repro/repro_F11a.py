import sys; sys.path.insert(0,'/repo/test')
from ufl import *; from utils import LagrangeElement
import numpy as np
m = Mesh(LagrangeElement(triangle,1,(2,)))
f = Coefficient(FunctionSpace(m, LagrangeElement(triangle,1)))
a = np.arange(2000.0); b = a.copy(); b[1000] = -1
F1 = f*dx(metadata={"w": a}); F2 = f*dx(metadata={"w": b})
print("sig equal:", F1.signature()==F2.signature())
from ufl.algorithms import compute_form_data
fd = compute_form_data(F1+F2)
print("n integrals", sum(len(i.integrals) for i in fd.integral_data), [len(id.integrals) for id in fd.integral_data])
print(f*dx(metadata={"w": np.float64(1.5)}).signature() == f*dx(metadata={"w": 1.5}).signature())
