import sys; sys.path.insert(0, "/repo/test")
from utils import LagrangeElement
from ufl import Coefficient, FunctionSpace, Index, Mesh, as_tensor, conditional, lt, triangle
from ufl.algorithms.remove_component_tensors import remove_component_tensors
from ufl.classes import Zero

dom = Mesh(LagrangeElement(triangle, 1, (2,)))
V = FunctionSpace(dom, LagrangeElement(triangle, 1, (2,)))
S = FunctionSpace(dom, LagrangeElement(triangle, 1))
u, f, g = Coefficient(V), Coefficient(S), Coefficient(S)
i = Index()
z = Zero((), (i.count(),), (2,))
e = as_tensor(conditional(lt(f, g), z, u[i]), (i,))[0]
try:
    r = remove_component_tensors(e)
    ok = r.ufl_shape == () and r.ufl_free_indices == ()
    print("result:", r)
except ValueError as ex:
    print("remove_component_tensors raises", ex)
    ok = False
print("PASS" if ok else "FAIL")
sys.exit(0 if ok else 1)
