import sys; sys.path.insert(0,'/repo/test')
from ufl import *; from utils import LagrangeElement
from ufl.algorithms.remove_component_tensors import remove_component_tensors
m = Mesh(LagrangeElement(triangle,1,(2,)))
V = FunctionSpace(m, LagrangeElement(triangle,1,(2,))); W = FunctionSpace(m, LagrangeElement(triangle,1,(2,2)))
u = Coefficient(V); v = Coefficient(V); A = Coefficient(W)
i,j = indices(2)
e = as_tensor(A[i,j]*v[j],(i,))[j]*u[j]
r = remove_component_tensors(e)
vals = {u:(2.0,3.0), v:(5.0,7.0), A:((1.0,2.0),(3.0,4.0))}
print(str(e)); print(str(r)); print(e((0,0),vals), r((0,0),vals))
