import sys; sys.path.insert(0,'/repo/test')
from ufl import *; from utils import LagrangeElement
from ufl.constant import Constant
def build(start):
    m = Mesh(LagrangeElement(triangle,1,(2,)), ufl_id=0)
    cs = [Constant(m, (), count=start+k) for k in range(2)]
    return ((cs[0]*cs[1])*dx(m)).signature()
print("const:", build(1)==build(9))
def build2(start):
    m1 = Mesh(LagrangeElement(triangle,1,(2,)), ufl_id=start)
    m2 = Mesh(LagrangeElement(triangle,1,(2,)), ufl_id=start+1)
    return ((CellVolume(m1)*CellVolume(m2))*dx(m1)).signature()
print("geo:", build2(1)==build2(9))
