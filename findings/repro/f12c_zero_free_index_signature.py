"""F12c: a Zero with free indices puts raw Index counts into Form.signature()."""
import sys
sys.path.insert(0, "/repo/test")
from utils import FiniteElement, LagrangeElement
from ufl import (Coefficient, FunctionSpace, Mesh, triangle, dx, conditional, lt, Index, Constant, TestFunction)


def build():
    cell = triangle
    dom = Mesh(LagrangeElement(cell, 1, (2,)))
    V = FunctionSpace(dom, LagrangeElement(cell, 1, (2,)))
    S = FunctionSpace(dom, LagrangeElement(cell, 1))
    v = Coefficient(V)
    w = Coefficient(V)
    c = Coefficient(S)
    i = Index()
    return conditional(lt(c, 0), 0 * v[i], v[i]) * w[i] * dx


a = build()
s1 = a.signature()
for _ in range(3):
    Index()  # shift the global index counter only
b = build()
s2 = b.signature()
print("same signature:", s1 == s2)
sys.exit(0 if s1 == s2 else 1)
