import sys; sys.path.insert(0, "/repo/test")
from utils import LagrangeElement
from ufl import Coefficient, FunctionSpace, Mesh, triangle
from ufl.classes import Action, Coargument, Matrix

dom = Mesh(LagrangeElement(triangle, 1, (2,)))
V = FunctionSpace(dom, LagrangeElement(triangle, 1))
U = FunctionSpace(dom, LagrangeElement(triangle, 2))
M, u = Matrix(V, U), Coefficient(U)
inner = Action(M, u)
outer = Action(Coargument(V.dual(), 0), inner)  # identity on V* applied to a 1-form: the 1-form itself
ok = outer is inner and inner._left is M and inner._right is u
print("inner._left:", type(inner._left).__name__, " inner._right is inner:", inner._right is inner)
print("PASS" if ok else "FAIL")
sys.exit(0 if ok else 1)
