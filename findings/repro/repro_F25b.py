import itertools, sys
from math import inf
from ufl.sobolevspace import H1, H2, HDiv, HCurl, L2, HInf, DirectionalSobolevSpace as D


class E:
    def __init__(self, sp):
        self.sobolev_space = sp


spaces = {"L2": L2, "H1": H1, "H2": H2, "HDiv": HDiv, "HCurl": HCurl, "HInf": HInf}
spaces.update({f"D{o}": D(o) for o in itertools.product([0, 1, 2, inf], repeat=2)})
bad = [(a, b) for (a, sa), (b, sb) in itertools.product(spaces.items(), repeat=2) if (E(sa) in sb) != (sa <= sb)]
print(len(bad), "pairs where `element in S` disagrees with `element.sobolev_space <= S`", bad[:6])
print("PASS" if not bad else "FAIL")
sys.exit(0 if not bad else 1)
