import sys, traceback
from ufl import *
import ufl
sys.path.insert(0,"/repo/test")
from utils import FiniteElement, MixedElement, LagrangeElement
from ufl.pullback import identity_pullback, contravariant_piola
from ufl.sobolevspace import H1, HDiv, HCurl, L2
def mesh(cell="triangle", gdim=None):
    c = ufl.Cell(cell) if isinstance(cell,str) else cell
    gdim = gdim or c.topological_dimension
    return Mesh(FiniteElement("Lagrange", c, 1, (gdim,), identity_pullback, H1))
m = mesh()
def P(k, shape=()): return FiniteElement("Lagrange", m.ufl_cell(), k, shape, identity_pullback, H1)
res = {}
def t(name, f):
    try: res[name]=f()
    except Exception as e: res[name]="EXC %s: %s"%(type(e).__name__, e)
# F13
t("F13 eq", lambda: Constant(m,(), ) is not None and (lambda a: (Constant.__new__(Constant) is None))(0) if False else None)
c1 = Constant(m); 
import copy
c2 = Constant(m,(2,)); c2._count = c1._count
t("F13", lambda: c1==c2)
# F24
V = FunctionSpace(m, P(1)); VV = FunctionSpace(m, P(1,(2,)))
f = Coefficient(V); v = Coefficient(VV); w = Coefficient(VV)
t("F24", lambda: conditional(f>0, v, w)[0]((0.1,0.2), {f: 1.0, v: (1.0,2.0), w:(3.0,4.0)}))
# F25
t("F25", lambda: (HDiv > HCurl, HCurl < HDiv, HDiv>=HCurl, HCurl<=HDiv))
# F5
T = Coefficient(FunctionSpace(m, P(1,(2,2,2))))
i,j,k = indices(3)
t("F5", lambda: as_tensor([as_tensor(T[kk,i,j],(j,i)) for kk in range(2)]) is T)
# F10a
u = Coefficient(VV); wv = variable(u)
from ufl.algorithms import expand_indices
t("F10a", lambda: str(expand_indices(wv[0]*wv[1])))
for k_,v_ in res.items(): print(k_, v_)
