import sys; sys.path.insert(0, "/repo/test")
from utils import LagrangeElement
from ufl import Coefficient, FunctionSpace, Mesh, triangle

dom = Mesh(LagrangeElement(triangle, 1, (2,)))
f = Coefficient(FunctionSpace(dom, LagrangeElement(triangle, 1)))
a = abs(f)
before = (repr(a), a.ufl_operands[0] is f)
b = abs(a)  # abs(abs(f)) simplifies to abs(f) ...
ok = b is a and a.ufl_operands[0] is f  # ... and must leave abs(f) as it was
print("operand of abs(f) after abs(abs(f)):", "abs(f) itself" if a.ufl_operands[0] is a else type(a.ufl_operands[0]).__name__)
print("PASS" if ok else "FAIL")
sys.exit(0 if ok else 1)
