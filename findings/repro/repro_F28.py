import sys; sys.path.insert(0, "/repo/test")
from utils import LagrangeElement
from ufl import *
from ufl.form import ZeroBaseForm
cell = triangle
dom = Mesh(LagrangeElement(cell, 1, (2,)))
V = FunctionSpace(dom, LagrangeElement(cell, 1)); U = FunctionSpace(dom, LagrangeElement(cell, 2))
M = Matrix(V, U)
Z = ZeroBaseForm((Argument(V, 0), Argument(U, 1)))
print("adjoint(M) numbers:", [a.number() for a in adjoint(M).arguments()])
print("adjoint(0) numbers:", [a.number() for a in adjoint(Z).arguments()])
A = Action(M, adjoint(Z)) if False else None
ok = [a.number() for a in adjoint(Z).arguments()] == [0, 1]
print("PASS" if ok else "FAIL"); sys.exit(0 if ok else 1)
