import sys; sys.path.insert(0,'/repo/test'); import itertools
from ufl import *; from utils import LagrangeElement
from ufl.sorting import cmp_expr, sorted_expr
m = Mesh(LagrangeElement(triangle,1,(2,)))
A3 = Coefficient(FunctionSpace(m, LagrangeElement(triangle,1,(2,2))))
A1 = Coefficient(FunctionSpace(m, LagrangeElement(triangle,1,(2,))))
A2 = Coefficient(FunctionSpace(m, LagrangeElement(triangle,1,(2,2))))
X,Y,Z = A1[0], A2[0,0], A3[0,1]
print(cmp_expr(X,Y), cmp_expr(Y,Z), cmp_expr(Z,X))
print(len({tuple(map(str,sorted_expr(p))) for p in itertools.permutations([X,Y,Z])}))
