import sys; sys.path.insert(0, "/repo/test")
from utils import LagrangeElement
from ufl import Coefficient, FunctionSpace, Mesh, as_tensor, as_vector, indices, triangle

dom = Mesh(LagrangeElement(triangle, 1, (2,)))
V = FunctionSpace(dom, LagrangeElement(triangle, 1, (2,)))
u, v = Coefficient(V), Coefficient(V)
i, k = indices(2)
L = as_vector([u[i], v[i]])
T = as_tensor(L[k], (i,))  # shape (2,), free index k
try:
    e = T[1]
    ok = e.ufl_shape == () and e.ufl_free_indices == (k.count(),)
    print("T[1] =", e)
except KeyError as ex:
    print("T[1] raises KeyError", ex)
    ok = False
print("PASS" if ok else "FAIL")
sys.exit(0 if ok else 1)
