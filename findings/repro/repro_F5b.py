from ufl import *
import sys; sys.path.insert(0, "/repo/test"); from utils import LagrangeElement


import numpy as np
cell = triangle
el = LagrangeElement(cell, 1, (2,))
dom = Mesh(el)
x = SpatialCoordinate(dom)
i, j = indices(2)
u = as_vector([x[0] + 2, x[1] + 3])
B = as_matrix([[x[0] + 1, x[1] + 2], [x[0] * 3 + 1, x[1] + 5]])
w = u[i] * B[i, :]           # vector, i summed inside
print(type(w).__name__, w.ufl_shape, w.ufl_free_indices)
e = w[i] * u[i]              # reuse i outside
print(e.ufl_shape, e.ufl_free_indices)
pt = (0.5, 0.25)
val = e(pt)
un = np.array([2.5, 3.25]); Bn = np.array([[1.5, 2.25], [2.5, 5.25]])
wn = un @ Bn
print("ufl:", val, " expected:", float(wn @ un))
k = Index()
e2 = w[k] * u[k]
print("fresh index:", e2(pt))
