import sys; sys.path.insert(0,'/repo/test')
from ufl import *; from utils import LagrangeElement
from ufl.algorithms import compute_form_data
from ufl.algorithms.check_arities import ArityMismatch
m = Mesh(LagrangeElement(triangle,1,(2,)))
V = FunctionSpace(m, LagrangeElement(triangle,1)); W = FunctionSpace(m, LagrangeElement(triangle,1,(2,)))
v = TestFunction(V); w = Coefficient(W); i = Index()
for F in [as_vector([v, 1.0])[i]*w[i]*dx, as_vector([v, 0])[i]*w[i]*dx]:
    try: compute_form_data(F); print("accepted")
    except ArityMismatch as e: print("rejected", e)
