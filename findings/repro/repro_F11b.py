"""F11b: base form operator data (derivatives, function space) is not in the form signature."""
import sys
sys.path.insert(0, "/repo/test")
from utils import LagrangeElement
from ufl import Coefficient, FunctionSpace, Mesh, triangle, dx, TestFunction
from ufl.core.external_operator import ExternalOperator

m = Mesh(LagrangeElement(triangle, 1, (2,)))
V1 = FunctionSpace(m, LagrangeElement(triangle, 1))
V2 = FunctionSpace(m, LagrangeElement(triangle, 2))
u = Coefficient(V1)
v = TestFunction(V1)
N0 = ExternalOperator(u, function_space=V1, derivatives=(0,))
N1 = ExternalOperator(u, function_space=V1, derivatives=(1,))
N2 = ExternalOperator(u, function_space=V2, derivatives=(0,))
s0 = (N0 * v * dx).signature()
s1 = (N1 * v * dx).signature()
s2 = (N2 * v * dx).signature()
print("derivatives (0,) vs (1,): same signature:", s0 == s1)
print("function space P1 vs P2:  same signature:", s0 == s2)
sys.exit(1 if (s0 == s1 or s0 == s2) else 0)
