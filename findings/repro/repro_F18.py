import sys; sys.path.insert(0,'/repo/test')
from ufl import *; from utils import LagrangeElement, MixedElement, FiniteElement, SymmetricElement
from ufl.pullback import contravariant_piola
from ufl.sobolevspace import HDiv
from ufl.algorithms import estimate_total_polynomial_degree
m = Mesh(LagrangeElement(triangle,1,(3,)))
RT = FiniteElement("RT", triangle, 3, (2,), contravariant_piola, HDiv)
P1 = LagrangeElement(triangle,1)
M = MixedElement([RT,P1])
f = Coefficient(FunctionSpace(m, M))
print(f.ufl_shape, [estimate_total_polynomial_degree(f[k]) for k in range(4)])
m2 = Mesh(LagrangeElement(triangle,1,(2,)))
S = SymmetricElement({(0,0):0,(0,1):1,(1,0):1,(1,1):2}, [LagrangeElement(triangle,k) for k in (1,2,3)])
g = Coefficient(FunctionSpace(m2, S))
print(g.ufl_shape, [[estimate_total_polynomial_degree(g[a,b]) for b in range(2)] for a in range(2)])
