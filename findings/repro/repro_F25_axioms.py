from ufl.sobolevspace import *
import ufl.sobolevspace as S, itertools
from math import inf
names = ["L2","HDiv","HCurl","H1","H1Div","H1Curl","H2","H3","HInf","HEin","HDivDiv","HCurlDiv"]
sp = [getattr(S,n) for n in names]
D = [DirectionalSobolevSpace(o) for o in [(0,0),(1,1),(2,2),(inf,inf),(1,0),(0,1),(2,0),(2,1)]]
bad=[]
for a,b in itertools.product(sp+D, repeat=2):
    try:
        lt = a<b; gt = b>a; le = a<=b; eq = a==b
        if lt != gt: bad.append(("gt",a,b,lt,gt))
        if le != (lt or eq): bad.append(("le",a,b))
        if lt and (b<a): bad.append(("asym",a,b))
        if a<a: bad.append(("irr",a))
        if (a>=b) != (b<a or a==b): bad.append(("ge",a,b))
    except NotImplementedError: continue
for a,b,c in itertools.product(sp+D, repeat=3):
    try:
        if a<b and b<c and not a<c: bad.append(("trans",a,b,c))
    except NotImplementedError: continue
print(len(bad)); print([tuple(map(str,x)) for x in bad[:15]])
