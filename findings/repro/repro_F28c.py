"""F28c: Action(u1 + u2, ZeroBaseForm((v,))) raised AttributeError ('Sum' object has no attribute 'arguments')
while Action(u1, ZeroBaseForm((v,))) returned the zero form.  Fixed in /repo by a 'fix:' commit.
Run:  cd /repo && PYTHONPATH=/repo /venv/bin/python /verif/findings/repro/repro_F28c.py"""
import sys

sys.path.insert(0, "/repo/test")
from utils import LagrangeElement  # noqa: E402

from ufl import Action, Coefficient, FunctionSpace, Mesh, TestFunction, triangle  # noqa: E402
from ufl.form import ZeroBaseForm  # noqa: E402

dom = Mesh(LagrangeElement(triangle, 1, (2,)))
V = FunctionSpace(dom, LagrangeElement(triangle, 1))
u1, u2 = Coefficient(V), Coefficient(V)
z = ZeroBaseForm((TestFunction(V),))
one = Action(u1, z)
try:
    two = Action(u1 + u2, z)
except AttributeError as e:
    print("FAIL:", e)
    sys.exit(1)
assert repr(one) == repr(two) == "ZeroBaseForm()", (one, two)
print("PASS")
